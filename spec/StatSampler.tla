----------------------------- MODULE StatSampler -----------------------------
(***************************************************************************)
(* StatisticalContinuumSampler.sample_from_continuum as a machine that     *)
(* consumes random draws (environment inputs) and builds the sample.       *)
(* For each ground-truth annotator in order:                               *)
(*   DrawCount(x)     units = |int(x)|, at least 1 while the sample is     *)
(*                    still empty                                          *)
(*   DrawGap(g)       start = end of the previous unit + g                 *)
(*   DrawDuration(d)  end = start + |d|; redrawn while shorter than the    *)
(*                    segment precision                                    *)
(*   DrawCategory(c)  the unit is added                                    *)
(* Values are fixed-point integers (K per time unit); `dn` is |d| in units *)
(* of the segment precision's resolution (capped), so "too short" is exact.*)
(***************************************************************************)
EXTENDS Integers, Sequences, FiniteSets, FiniteSetsExt, TLC

CONSTANTS NAnn,           \* number of ground-truth annotators (annotator = 1..NAnn, alphabetical)
          K,              \* fixed-point steps per time unit (draws of the unit count are in the same scale)
          PrecisionN,     \* segment precision in `dn` units
          Cats,           \* categories a unit may get
          Variant         \* "none" | "no_guard" (max(1, .) removed) | "no_abs" (negative durations kept)

VARIABLES pc, ann, anns, left, last, start, out
stvars == <<pc, ann, anns, left, last, start, out>>

Abs(x) == IF x < 0 THEN -x ELSE x
TruncUnits(x) == IF x >= 0 THEN x \div K ELSE -((-x) \div K)       \* int()

Init == /\ pc = "count" /\ ann = 1 /\ anns = {1} /\ left = 0 /\ last = 0 /\ start = 0 /\ out = {}

NextAnnotator == IF ann = NAnn THEN /\ pc' = "done" /\ ann' = ann /\ anns' = anns
                 ELSE /\ pc' = "count" /\ ann' = ann + 1 /\ anns' = anns \cup {ann + 1}

DrawCount(x) ==
    /\ pc = "count"
    /\ LET raw == Abs(TruncUnits(x))
           nb == IF out = {} /\ raw = 0 /\ Variant # "no_guard" THEN 1 ELSE raw
       IN IF nb = 0
            THEN NextAnnotator /\ left' = 0
            ELSE pc' = "gap" /\ left' = nb /\ UNCHANGED <<ann, anns>>
    /\ last' = 0
    /\ UNCHANGED <<start, out>>

DrawGap(g) ==
    /\ pc = "gap"
    /\ start' = last + g
    /\ pc' = "dur"
    /\ UNCHANGED <<ann, anns, left, last, out>>

\* d: the draw in fixed point; dn: its magnitude in precision units
DrawDuration(d, dn) ==
    /\ pc = "dur"
    /\ IF dn < PrecisionN /\ Variant # "no_abs"
         THEN UNCHANGED stvars                                    \* redraw
         ELSE /\ pc' = "cat"
              /\ last' = start + (IF Variant = "no_abs" THEN d ELSE Abs(d))   \* `last` holds the end of the unit being built
              /\ UNCHANGED <<ann, anns, left, start, out>>

DrawCategory(c) ==
    /\ pc = "cat"
    /\ out' = out \cup {<<ann, start, last, c>>}
    /\ left' = left - 1
    /\ IF left = 1 THEN NextAnnotator ELSE pc' = "gap" /\ UNCHANGED <<ann, anns>>
    /\ UNCHANGED <<last, start>>

(* ------------------------------ properties ------------------------------ *)
Done == pc = "done"
NonEmpty == Done => out # {}
ExactAnnotators == Done => anns = 1..NAnn /\ \A u \in out : u[1] \in anns
PositiveDurations == \A u \in out : u[3] > u[2] \/ (K > 1 /\ u[3] >= u[2])    \* longer than the precision (>= in coarse fixed point)
OnlyCategories == \A u \in out : u[4] \in Cats
FirstAnnotatorNonEmpty == (pc \in {"done"} \/ ann > 1) => \E u \in out : u[1] = 1
=============================================================================
