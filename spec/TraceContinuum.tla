--------------------------- MODULE TraceContinuum ---------------------------
(* Code -> spec: recorded histories of real Continuum objects are re-executed   *)
(* with the actions of Continuum.tla; after every call the projection of EVERY  *)
(* live object logged by the harness is judged against the spec heap by named   *)
(* predicates.  "Accept, then judge": a line is always consumed; each failing   *)
(* predicate prints one verdict line <<"VERDICT", name, tid, l>>.               *)
EXTENDS Integers, Sequences, FiniteSets, FiniteSetsExt, TLC, Json, IOUtils, SequencesExt

File == JsonDeserialize(IOEnv.TRACE_FILE)
Traces == File.traces

VARIABLES heap, out, tid, l, aux
tvars == <<heap, out, tid, l, aux>>      \* aux: other objects given to computations (dissimilarities), as opaque values

C == INSTANCE Continuum WITH Obj <- 1..File.nobj, Zero <- File.zero, EmitEdges <- FALSE, Mutant <- "none", CarryAll <- FALSE

T == Traces[tid]
E == T[l]                      \* the line being consumed
A(i) == E.args[i]

ObsOfIn(e, o) == LET hits == {k \in 1..Len(e.obs) : e.obs[k][1] = o} IN e.obs[CHOOSE k \in hits : TRUE][2]
HasObs(e, o) == \E k \in 1..Len(e.obs) : e.obs[k][1] = o
ValOf(p) == [ann |-> ToSet(p.ann), units |-> ToSet(p.units), cats |-> ToSet(p.cats),
             lo |-> p.lo, hi |-> p.hi, bws |-> p.bws]

Init == tid \in 1..Len(Traces) /\ l = 1 /\ heap = [o \in 1..File.nobj |-> C!NoObj] /\ out = "ok" /\ aux = <<>>

\* bind the nondeterministic part of an action (categories carried) to the observation when allowed
CatsMatch(o) == HasObs(E, o) => heap'[o].cats = ToSet(ObsOfIn(E, o).cats)

ObsCatsIn(o) == IF HasObs(E, o) THEN ToSet(ObsOfIn(E, o).cats) ELSE {}
InRange(S, low, up) == low \subseteq S /\ S \subseteq up

Skip == heap' = heap /\ out' = "not-enabled"

Step ==
    /\ l <= Len(T)
    /\ l' = l + 1 /\ tid' = tid
    /\ aux' = IF E.op = "newaux" THEN Append(aux, <<A(1), E.auxval>>) ELSE aux     \* created once, never changed by any call
    /\ CASE E.op = "new" -> IF heap[A(1)] = C!NoObj THEN C!New(A(1)) ELSE Skip
         [] E.op = "add" -> IF A(1) \in C!Live THEN C!Add(A(1), A(2), A(3), A(4), A(5)) ELSE Skip
         [] E.op \in {"add_timeline", "add_annotation"} ->
              IF A(1) \in C!Live THEN C!AddMany(E.op, A(1), A(2), ToSet(E.items)) ELSE Skip
         [] E.op = "add_annotator" -> IF A(1) \in C!Live THEN C!AddAnnotator(A(1), A(2)) ELSE Skip
         [] E.op = "remove" -> IF A(1) \in C!Live THEN C!Remove(A(1), A(2), A(3), A(4), A(5)) ELSE Skip
         [] E.op = "copy" ->
              IF A(1) \in C!Live /\ heap[A(2)] = C!NoObj
              THEN \/ C!Copy(A(1), A(2)) /\ CatsMatch(A(2))
                   \/ ~InRange(ObsCatsIn(A(2)), C!LabelsInUse(heap[A(1)]), heap[A(1)].cats)
                      /\ heap' = [heap EXCEPT ![A(2)] = [heap[A(1)] EXCEPT !.cats = C!LabelsInUse(heap[A(1)])]] /\ out' = "ok"
              ELSE Skip
         [] E.op = "copy_flush" -> IF A(1) \in C!Live /\ heap[A(2)] = C!NoObj THEN C!CopyFlush(A(1), A(2)) ELSE Skip
         [] E.op = "merge_in_place" ->
              IF A(1) \in C!Live /\ A(2) \in C!Live
              THEN \/ C!MergeInPlace(A(1), A(2)) /\ CatsMatch(A(1))
                   \/ ~InRange(ObsCatsIn(A(1)), C!MergeLower(heap[A(1)], heap[A(2)]).cats,
                               heap[A(1)].cats \cup heap[A(2)].cats \cup C!LabelsInUse(heap[A(2)]))
                      /\ heap' = [heap EXCEPT ![A(1)] = C!MergeLower(heap[A(1)], heap[A(2)])] /\ out' = "ok"
              ELSE Skip
         [] E.op \in {"merge_new", "plus"} ->
              IF A(1) \in C!Live /\ A(2) \in C!Live /\ heap[A(3)] = C!NoObj
              THEN \/ C!MergeNew(E.op, A(1), A(2), A(3)) /\ CatsMatch(A(3))
                   \/ ~InRange(ObsCatsIn(A(3)),
                               C!LabelsInUse(heap[A(1)]) \cup C!LabelsInUse(heap[A(2)]),
                               heap[A(1)].cats \cup heap[A(2)].cats \cup C!LabelsInUse(heap[A(2)]))
                      /\ heap' = [heap EXCEPT ![A(3)] =
                             C!MergeLower([heap[A(1)] EXCEPT !.cats = C!LabelsInUse(heap[A(1)])], heap[A(2)])]
                      /\ out' = "ok"
              ELSE Skip
         [] E.op = "reset_bounds" -> IF A(1) \in C!Live THEN C!ResetBounds(A(1)) ELSE Skip
         [] E.op = "drop" -> IF A(1) \in C!Live THEN C!Drop(A(1)) ELSE Skip
         [] E.op = "compute" -> C!Compute(E.kind)
         [] E.op = "newaux" -> C!Compute("newaux")
         [] E.op = "fast_gamma" -> IF A(1) \in C!Live THEN C!FastGamma(A(1), A(2)) ELSE Skip
         [] E.op = "derive" -> IF heap[A(1)] = C!NoObj /\ HasObs(E, A(1))
                                 THEN C!Derive(A(1), ValOf(ObsOfIn(E, A(1)))) ELSE Skip
         [] OTHER -> Skip

Spec == Init /\ [][Step]_tvars

(* ------------------------------- judging ------------------------------- *)
Prev == T[l - 1]
Judging == l > 1
ObsOf(o) == ObsOfIn(Prev, o)
IsStrict(seq, Less(_, _)) == \A i \in 1..(Len(seq) - 1) : Less(seq[i], seq[i + 1])
IntLess(a, b) == a < b
UnitIterLess(u, v) == u[1] < v[1] \/ (u[1] = v[1] /\ C!ULess(u, v))

ObsEnabled  == out # "not-enabled"
ObsOutcome  == out = "not-enabled" \/ Prev.out = out
ObsLive     == {Prev.obs[k][1] : k \in 1..Len(Prev.obs)} = C!Live
ObsAnn      == \A o \in C!Live : HasObs(Prev, o) => ToSet(ObsOf(o).ann) = heap[o].ann
ObsAnnSorted == \A o \in C!Live : HasObs(Prev, o) => IsStrict(ObsOf(o).ann, IntLess)
ObsUnits    == \A o \in C!Live : HasObs(Prev, o) => ToSet(ObsOf(o).units) = heap[o].units
ObsSorted   == \A o \in C!Live : HasObs(Prev, o) => IsStrict(ObsOf(o).units, UnitIterLess)   \* also: no duplicates
ObsCount    == \A o \in C!Live : HasObs(Prev, o) =>
                   /\ ObsOf(o).n = Cardinality(heap[o].units)
                   /\ ObsOf(o).len = Cardinality(heap[o].ann)
                   /\ ObsOf(o).derived.nann = Cardinality(heap[o].ann)                 \* num_annotators
                   /\ (ObsOf(o).bool = 1) = (heap[o].units # {})
ObsCats     == \A o \in C!Live : HasObs(Prev, o) => ToSet(ObsOf(o).cats) = heap[o].cats
ObsCatsCover == \A o \in C!Live : HasObs(Prev, o) =>
                   ({u[4] : u \in ToSet(ObsOf(o).units)} \ {0}) \subseteq ToSet(ObsOf(o).cats)
ObsCatsSorted == \A o \in C!Live : HasObs(Prev, o) => IsStrict(ObsOf(o).cats, IntLess)
ObsBounds   == \A o \in C!Live : HasObs(Prev, o) => ObsOf(o).lo = heap[o].lo /\ ObsOf(o).hi = heap[o].hi
ObsBws      == \A o \in C!Live : HasObs(Prev, o) => ObsOf(o).bws = heap[o].bws
ObsEq       == \A k \in 1..Len(Prev.eq) :
                   LET q == Prev.eq[k] IN
                   (q[1] \in C!Live /\ q[2] \in C!Live) =>
                       /\ (q[3] = 1) = C!Eq(heap[q[1]], heap[q[2]])       \* ==
                       /\ q[4] = 1 - q[3]                                  \* != is its negation
ObsViews    == \A o \in C!Live : HasObs(Prev, o) =>                      \* continuum[annotator]
                   LET vs == ObsOf(o).views IN
                   /\ {vs[k][1] : k \in 1..Len(vs)} = heap[o].ann
                   /\ \A k \in 1..Len(vs) : /\ ToSet(vs[k][2]) = C!UnitsOf(heap[o], vs[k][1])
                                              /\ IsStrict(vs[k][2], C!ULess)
\* derived observables: num_annotators, max_num_annotations_per_annotator, category_weights (share of each label in use)
CountLabel(c, lab) == Cardinality({u \in c.units : u[4] = lab})
MaxPer(c) == IF c.ann = {} THEN 0 ELSE Max({Cardinality(C!UnitsOf(c, a)) : a \in c.ann})
ObsDerived == \A o \in C!Live : HasObs(Prev, o) =>
    LET d == ObsOf(o).derived c == heap[o] n == Cardinality(c.units) IN
    /\ d.maxper = MaxPer(c)
    /\ (d.avgok = 1 /\ c.ann # {}) =>                                         \* avg_num_annotations_per_annotator (x 1e6)
          LET diff == d.avgnum * Cardinality(c.ann) - n * 1000000 IN diff <= Cardinality(c.ann) /\ -diff <= Cardinality(c.ann)
    /\ d.wok # 2                                                              \* category_weights must not fail on labelled units
    /\ d.wok = 1 => /\ {d.weights[k][1] : k \in 1..Len(d.weights)} = C!LabelsInUse(c)
                    /\ \A k \in 1..Len(d.weights) :
                           LET diff == d.weights[k][2] * n - CountLabel(c, d.weights[k][1]) * 1000000
                           IN diff <= n /\ -diff <= n
\* (ObsDerived is beyond the statements of C13 / C14: judged, reported as a NOTE)
\* every dissimilarity (or other auxiliary input) still is exactly what it was when it was created
ObsAux == \A k \in 1..Len(Prev.aux) : \A j \in 1..Len(aux) : aux[j][1] = Prev.aux[k][1] => aux[j][2] = Prev.aux[k][2]
ObsDerivedWellFormed == Prev.op = "derive" /\ out = "ok" => C!WellFormed(heap[Prev.args[1]])

Judge(name, ok) == ok \/ PrintT(ToJson([verdict |-> name, tid |-> tid, l |-> l - 1]))

Verdicts ==
    /\ (l = Len(T) + 1) => PrintT(ToJson([done |-> tid, n |-> l - 1]))
    /\ Judging =>
        /\ Judge("ObsEnabled", ObsEnabled)
        /\ Judge("ObsOutcome", ObsOutcome)
        /\ Judge("ObsLive", ObsLive)
        /\ Judge("ObsAnn", ObsAnn)
        /\ Judge("ObsAnnSorted", ObsAnnSorted)
        /\ Judge("ObsUnits", ObsUnits)
        /\ Judge("ObsSorted", ObsSorted)
        /\ Judge("ObsCount", ObsCount)
        /\ Judge("ObsCats", ObsCats)
        /\ Judge("ObsCatsCover", ObsCatsCover)
        /\ Judge("ObsCatsSorted", ObsCatsSorted)
        /\ Judge("ObsBounds", ObsBounds)
        /\ Judge("ObsBws", ObsBws)
        /\ Judge("ObsEq", ObsEq)
        /\ Judge("ObsViews", ObsViews)
        /\ Judge("ObsDerivedWellFormed", ObsDerivedWellFormed)
        /\ Judge("ObsAux", ObsAux)
        /\ Judge("ObsDerived", ObsDerived)
=============================================================================
