------------------------------ MODULE FastAlign ------------------------------
(***************************************************************************)
(* get_fast_alignment, step for step, on an integer grid with the          *)
(* positional-sporadic dissimilarity (exact: scaled integers).             *)
(*   one iteration = get_first_window (head of min(total, w*n) units taken *)
(*   in rounds of "smallest current end", x_limit = upper bound of the     *)
(*   window continuum (which starts at (0,0)), extension per annotator     *)
(*   while d(rightmost, unit) <= n*delta_empty), best alignment of the     *)
(*   window (ANY optimal one: solver ties), take_until_limit, removal.     *)
(* A unit is <<start, end>>; rem[a] is the set of units annotator a still  *)
(* has.                                                                    *)
(***************************************************************************)
EXTENDS Integers, Sequences, FiniteSets, FiniteSetsExt, TLC, Json

CONSTANTS NA, W, SMax, MaxLen, MaxU,
          Variant,        \* "none" | "no_progress" (the library before its fix)
          EmitRuns        \* TRUE: print <<initial continuum, final cost>> for every finished run

Ann == 1..NA
Segs == {<<s, s + k>> : s \in 0..SMax, k \in 1..MaxLen}
Null == <<>>

VARIABLES init, rem, out, iter, stalled
fvars == <<init, rem, out, iter, stalled>>

Abs(x) == IF x < 0 THEN -x ELSE x
L == 840                                   \* lcm(2..8): durations sum to 2..8 when MaxLen <= 4
DE == L * L
D(u, v) == LET num == (Abs(u[1] - v[1]) + Abs(u[2] - v[2])) * (L \div ((u[2] - u[1]) + (v[2] - v[1])))
           IN num * num                    \* ((|ds|+|de|)/(dur+dur))^2 * DE, exactly
Less(u, v) == u[1] < v[1] \/ (u[1] = v[1] /\ u[2] < v[2])          \* unit order (no labels here)
Sorted(S) == CHOOSE q \in [1..Cardinality(S) -> S] : \A i, j \in 1..Cardinality(S) : i < j => Less(q[i], q[j])
Total(r) == FoldSet(LAMBDA a, acc : acc + Cardinality(r[a]), 0, Ann)

(* ---- get_first_window ---- *)
RECURSIVE HeadSel(_, _, _)
HeadSel(r, idx, toTake) ==
    IF FoldSet(LAMBDA a, acc : acc + idx[a], 0, Ann) >= toTake THEN idx
    ELSE LET live == {a \in Ann : idx[a] < Cardinality(r[a])}
             nxt(a) == Sorted(r[a])[idx[a] + 1]
             x == Min({nxt(a)[2] : a \in live})
         IN HeadSel(r, [a \in Ann |-> IF a \in live /\ nxt(a)[2] <= x THEN idx[a] + 1 ELSE idx[a]], toTake)

Window(r) ==
    LET toTake == IF Total(r) < W * NA THEN Total(r) ELSE W * NA
        idx == HeadSel(r, [a \in Ann |-> 0], toTake)
        head == [a \in Ann |-> {Sorted(r[a])[i] : i \in 1..idx[a]}]
        hs == UNION {head[a] : a \in Ann}
        right == CHOOSE u \in hs : \A v \in hs : v = u \/ Less(v, u)
        xl == Max({0} \cup {u[2] : u \in hs})
        ext(a) == LET q == Sorted(r[a])
                      n == Cardinality(r[a])
                      ok(i) == D(right, q[i]) <= DE * NA
                      stop == IF \E i \in (idx[a] + 1)..n : ~ok(i) THEN Min({i \in (idx[a] + 1)..n : ~ok(i)}) ELSE n + 1
                  IN {q[i] : i \in (idx[a] + 1)..(stop - 1)}
    IN [units |-> [a \in Ann |-> head[a] \cup ext(a)], xl |-> xl, head |-> head]

(* ---- best alignments of a window: all minimum-cost partitions ---- *)
TupCost(t) == FoldSet(LAMBDA p, acc : acc + (IF t[p[1]] = Null \/ t[p[2]] = Null THEN DE ELSE D(t[p[1]], t[p[2]])),
                      0, {p \in Ann \X Ann : p[1] < p[2]})
RECURSIVE Covers(_)
Covers(w) ==
    IF \A a \in Ann : w[a] = {} THEN {{}}
    ELSE LET a0 == Min({a \in Ann : w[a] # {}})
             u0 == Sorted(w[a0])[1]
             tups == {t \in [Ann -> Segs \cup {Null}] :
                        t[a0] = u0 /\ \A a \in Ann : a # a0 => (t[a] = Null \/ (a > a0 /\ t[a] \in w[a]))}
         IN UNION {{c \cup {t} : c \in Covers([a \in Ann |-> w[a] \ {t[a]}])} : t \in tups}
CoverCost(c) == FoldSet(LAMBDA t, acc : acc + TupCost(t), 0, c)
Best(w) == LET cs == Covers(w)
               m == Min({CoverCost(c) : c \in cs})
           IN {c \in cs : CoverCost(c) = m}
Opt(w) == Min({CoverCost(c) : c \in Covers(w)})

(* ---- take_until_limit ---- *)
MaxEnd(t) == Max({t[a][2] : a \in {b \in Ann : t[b] # Null}})
Takes(c, xl) ==          \* the possible results (stable sort: ties among leftmost-ending tuples are solver order)
    LET ok == {t \in c : MaxEnd(t) <= xl}
    IN IF ok # {} THEN {ok}
       ELSE IF Variant = "no_progress" THEN {{}}
       ELSE {{t} : t \in {x \in c : \A y \in c : MaxEnd(x) <= MaxEnd(y)}}

Init == /\ init \in [Ann -> {S \in SUBSET Segs : Cardinality(S) <= MaxU}]
        /\ \E a \in Ann : init[a] # {}
        /\ rem = init /\ out = {} /\ iter = 0 /\ stalled = FALSE

Iterate ==
    /\ \E a \in Ann : rem[a] # {}
    /\ ~stalled
    /\ LET w == Window(rem) IN
       \E c \in Best(w.units) : \E ch \in Takes(c, w.xl) :
          /\ out' = out \cup ch
          /\ rem' = [a \in Ann |-> rem[a] \ {t[a] : t \in ch}]
          /\ stalled' = (ch = {})
    /\ iter' = iter + 1
    /\ init' = init

Finish ==
    /\ \A a \in Ann : rem[a] = {}
    /\ iter >= 0
    /\ EmitRuns => PrintT(ToJson([init |-> init, cost |-> CoverCost(out), opt |-> Opt(init), n |-> Cardinality(out)]))
    /\ UNCHANGED <<init, rem, out, stalled>>
    /\ iter' = -1

Next == Iterate \/ Finish
Spec == Init /\ [][Next]_fvars /\ WF_fvars(Next)

Done == \A a \in Ann : rem[a] = {}

(* ------------------------------ properties ------------------------------ *)
NoStall == ~stalled                                              \* every iteration removes at least one unit
Progress == [][iter' > iter => Total(rem') < Total(rem)]_fvars
WindowIsSubset == (\E a \in Ann : rem[a] # {}) =>
    LET w == Window(rem) IN /\ \A a \in Ann : w.units[a] \subseteq rem[a]
                            /\ Total(w.head) >= (IF Total(rem) < W * NA THEN Total(rem) ELSE W * NA)
PartitionAtDone == Done =>
    /\ \A a \in Ann : \A u \in init[a] : Cardinality({t \in out : t[a] = u}) = 1
    /\ \A t \in out : /\ \E a \in Ann : t[a] # Null
                      /\ \A a \in Ann : t[a] = Null \/ t[a] \in init[a]
NeverBelowBest == Done => CoverCost(out) >= Opt(init)
EqualWhenCovering == (Done /\ W * NA >= Total(init)) => CoverCost(out) = Opt(init)
Terminates == <>Done
=============================================================================
