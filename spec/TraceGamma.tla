------------------------------ MODULE TraceGamma ------------------------------
(* Code -> spec for compute_gamma: every recorded run (harness-side recording executor, *)
(* recording sampler subclass, algorithm probes) is judged against what GammaRun.tla    *)
(* and the gamma definition demand.  Numbers are fixed point (1e-4); the required       *)
(* sample count is decided with exact big-number arithmetic (BigNat).                   *)
EXTENDS Integers, Sequences, FiniteSets, FiniteSetsExt, TLC, Json, IOUtils, SequencesExt, BigNat

File == JsonDeserialize(IOEnv.TRACE_FILE)
Recs == File.recs
Groups == File.groups

VARIABLE tid
R == Recs[tid]
Abs(x) == IF x < 0 THEN -x ELSE x
Max2(a, b) == IF a > b THEN a ELSE b
T == Len(R.chance)

(* ---- required samples: N_req = ceil((1.96 * CV / p)^2), CV^2 = cvnum/cvden, p = pa/pb ---- *)
(*      N >= N_req  <=>  N * 10^4 * cvden * pa^2 >= 38416 * cvnum * pb^2                      *)
Lhs(nn) == Mul(Mul(FromInt(nn), FromInt(10000)), Mul(R.cvden, Mul(FromInt(R.pa), FromInt(R.pa))))
Rhs == Mul(FromInt(38416), Mul(R.cvnum, Mul(FromInt(R.pb), FromInt(R.pb))))
\* relative band 1e-7 around the threshold: float rounding inside the library's own ceil() is not judged
RhsLow == Mul(Rhs, FromInt(9999999))
RhsHigh == Mul(Rhs, FromInt(10000001))
Scale7(x) == Mul(x, FromInt(10000000))
AtLeastReq(nn) == Geq(Scale7(Lhs(nn)), RhsLow)          \* nn >= N_req (lenient)
BelowReq(nn) == ~Geq(Scale7(Lhs(nn)), RhsHigh)          \* nn <  N_req (lenient)
ObsCount ==
    IF R.hasprec = 0 THEN T = R.n                                            \* no precision level: exactly n_samples
    ELSE /\ T >= R.n
         /\ AtLeastReq(T)                                                    \* max(n, N_req) reached ...
         /\ T > R.n => BelowReq(T - 1)                                       \* ... and not exceeded
ObsNoExtraDraw == Len(R.draws) = T                                           \* one fresh sample per chance alignment, no more

\* one fresh sample per chance alignment: the chance alignments are alignments of exactly the continua drawn (C05) ...
ObsChanceFresh == /\ Len(R.draws) = T => {R.chance[k].sid : k \in 1..T} = {R.draws[k].sid : k \in 1..Len(R.draws)}
                  /\ Cardinality({R.chance[k].sid : k \in 1..T}) = T
                  /\ Cardinality({R.draws[k].sid : k \in 1..Len(R.draws)}) = Len(R.draws)    \* every sample a fresh object
                  /\ \A k \in 1..Len(R.draws) : R.draws[k].sid # 0                           \* never the input itself
\* ... and they are held in sampling order (C06: the SEQUENCE of chance disorders is a function of the seed)
ObsChanceOrder == \A k \in 1..T : k <= Len(R.draws) => R.chance[k].sid = R.draws[k].sid
\* shuffle sampler: every sampled annotator has the durations and labels of one GROUND-TRUTH annotator
SameSig(s1, s2) == Len(s1) = Len(s2) /\ \A i \in 1..Len(s1) : s1[i][2] = s2[i][2] /\ Abs(s1[i][1] - s2[i][1]) <= 1
ObsSampleValid == \A k \in 1..Len(R.draws) :
                      /\ R.draws[k].nunits >= 1
                      /\ R.draws[k].nann = R.ngt
                      /\ R.sampler = "stat" => R.draws[k].anns = [x \in 1..R.ngt |-> x]
                      /\ R.sampler = "shuffle" => \A a \in 1..Len(R.draws[k].sigs) :
                                                     \E g \in 1..Len(R.gtsigs) : SameSig(R.draws[k].sigs[a], R.gtsigs[g])
\* fast mode: the windowed algorithm with the window size measured on the INPUT (samples inherit it), the exact one when
\* windowing was estimated to be disadvantageous (window size infinite)
AlgoFor(e) == IF R.mode = "soft" THEN "soft" ELSE IF R.mode = "fast" /\ R.best.bwsinf = 0 THEN "fast" ELSE "best"
ClassFor == IF R.mode = "soft" THEN "SoftAlignment" ELSE "Alignment"
ObsMode == /\ \A k \in 1..T : R.chance[k].algo = AlgoFor(R.chance[k]) /\ R.chance[k].cls = ClassFor
           /\ R.mode = "fast" => \A k \in 1..T : R.chance[k].bwsinf = R.best.bwsinf
           /\ R.best.algo = AlgoFor(R.best) /\ R.best.cls = ClassFor
           /\ R.best.sid = 0                                                 \* observed disorder: the INPUT's alignment
ObsObserved == R.observed = R.best.dis
SumChance == FoldSet(LAMBDA k, acc : acc + R.chance[k].dis, 0, 1..T)
ObsExpected == T >= 1 => Abs(R.expected * T - SumChance) <= T                \* mean of the chance disorders
OneMinusGamma == 10000 - R.gamma
ObsGamma == IF R.observed = 0 THEN R.gamma = 10000                           \* gamma = 1 when the observed disorder is 0
            ELSE Abs(OneMinusGamma * (R.expected \div 10) - R.observed * 1000) <= 1000 + Abs(OneMinusGamma) + R.expected \div 10
ObsLeOne == R.gamma <= 10000
ObsIdentical == R.identical = 1 => R.gamma = 10000 /\ R.observed = 0
\* approx_gamma_range = (1 - observed / (expected (1 - p)), 1 - observed / (expected (1 + p))); refused without a precision level
\* (1 - bound) * expected * (pb -+ pa) = observed * pb, as big naturals on the 1e-6 grid: 1e-3 relative plus what one unit of
\* rounding in each of the three logged values can move the two sides (the slack is exact, so the clause is sound on any grid)
One6 == 1000000
Prod3(a, b, c) == Mul(FromInt(a), Mul(FromInt(b), FromInt(c)))
Slack(r, q) == Add(Mul(FromInt(R.exp6 + 1), FromInt(q)), Add(Mul(FromInt(One6 - r + 1), FromInt(q)), Mul(FromInt(One6), FromInt(R.pb))))
NearBigS(x, y, s) == /\ Geq(Add(Mul(y, FromInt(1001)), Mul(s, FromInt(1000))), Mul(x, FromInt(1000)))
                     /\ Geq(Add(Mul(x, FromInt(1001)), Mul(s, FromInt(1000))), Mul(y, FromInt(1000)))
ObsRange ==
    IF R.hasprec = 0 THEN R.rexc = "ValueError"
    ELSE /\ (R.rexc = "" /\ R.r6ok = 1 /\ R.exp6 > 0 /\ R.rlo6 <= One6 /\ R.rhi6 <= One6 /\ R.pb > R.pa) =>
               /\ NearBigS(Prod3(One6 - R.rlo6, R.exp6, R.pb - R.pa), Prod3(R.obs6, One6, R.pb), Slack(R.rlo6, R.pb - R.pa))
               /\ NearBigS(Prod3(One6 - R.rhi6, R.exp6, R.pb + R.pa), Prod3(R.obs6, One6, R.pb), Slack(R.rhi6, R.pb + R.pa))
         /\ (R.rexc = "" /\ R.expected > 0 /\ R.rlo <= 10000 /\ R.rhi <= 10000) => R.rlo <= R.gamma + 1 /\ R.gamma <= R.rhi + 1   \* gamma inside its own range

DrawInMainThread == \A k \in 1..Len(R.draws) : R.draws[k].thread = 0
DrawBeforeSubmit == /\ Len(R.submits) = Len(R.draws) + 1
                    /\ R.submits[1].sid = 0
                    /\ \A k \in 1..Len(R.draws) : k + 1 <= Len(R.submits) =>
                           /\ R.submits[k + 1].sid = R.draws[k].sid
                           /\ R.draws[k].seq < R.submits[k + 1].seq
\* C06: every group is a set of runs of ONE configuration and seed under different schedules / worker counts / hash seeds
ObsSameAsFirst == tid = 1 => \A g \in 1..Len(Groups) : \A k \in 1..Len(Groups[g].results) : Groups[g].results[k] = Groups[g].results[1]

Init == tid \in 1..Len(Recs)
Next == UNCHANGED tid
Spec == Init /\ [][Next]_tid

Judge(name, ok) == ok \/ PrintT(ToJson([verdict |-> name, tid |-> tid]))
Verdicts ==
    /\ PrintT(ToJson([done |-> tid]))
    /\ Judge("ObsCount", ObsCount)
    /\ Judge("ObsNoExtraDraw", ObsNoExtraDraw)
    /\ Judge("ObsChanceOrder", ObsChanceOrder)
    /\ Judge("ObsChanceFresh", ObsChanceFresh)
    /\ Judge("ObsSampleValid", ObsSampleValid)
    /\ Judge("ObsMode", ObsMode)
    /\ Judge("ObsObserved", ObsObserved)
    /\ Judge("ObsExpected", ObsExpected)
    /\ Judge("ObsGamma", ObsGamma)
    /\ Judge("ObsLeOne", ObsLeOne)
    /\ Judge("ObsIdentical", ObsIdentical)
    /\ Judge("ObsRange", ObsRange)
    /\ Judge("DrawInMainThread", DrawInMainThread)
    /\ Judge("DrawBeforeSubmit", DrawBeforeSubmit)
    /\ Judge("ObsSameAsFirst", ObsSameAsFirst)
=============================================================================
