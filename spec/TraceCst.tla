-------------------------------- MODULE TraceCst --------------------------------
(* Code -> spec for the corpus shuffling tool.  A record is one call of the real tool   *)
(* (a single perturbation on a corpus built by corpus_from_reference, or a whole        *)
(* corpus_shuffle) with the corpus before and after, as sequences of                     *)
(* <<annotator, start, end, category, duration ns>> (fixed point 1e-4, category rank).  *)
(* TLC judges validity of the result and the confinement of the perturbation, in the     *)
(* terms of Cst.tla (the per-annotator action properties).                               *)
EXTENDS Integers, Sequences, FiniteSets, FiniteSetsExt, TLC, Json, IOUtils, SequencesExt

File == JsonDeserialize(IOEnv.TRACE_FILE)
Recs == File.recs
VARIABLE tid
R == Recs[tid]
Before == ToSet(R.before)
After == ToSet(R.after)
Of(U, a) == {u \in U : u[1] = a}
SegsOf(U) == {<<u[1], u[2], u[3]>> : u \in U}
TotalDur(U) == FoldSet(LAMBDA u, acc : acc + (u[3] - u[2]), 0, U)
Abs(x) == IF x < 0 THEN -x ELSE x
\* numbers of units are counted on the logged SEQUENCES (two distinct tiny units may coincide on the fixed-point grid)
CountOf(seq, a) == Cardinality({k \in 1..Len(seq) : seq[k][1] = a})
AnnsAfter == ToSet(R.anns_after)
AnnsBefore == ToSet(R.anns_before)

\* validity of every corpus the tool returns
ObsAnnotators == R.anns_after = R.expected_anns                                   \* exactly the requested annotators (+ reference), in order
ObsNoneEmpty == \A a \in AnnsAfter : Of(After, a) # {}
ObsPositive == \A u \in After : u[5] > 0                                          \* duration in nanoseconds (the 1e-4 grid is too coarse)
ObsCategories == \A u \in After : u[4] \in ToSet(R.refcats)
ObsMagnitudeZero == R.magzero = 1 => \A a \in AnnsAfter : {<<u[2], u[3], u[4]>> : u \in Of(After, a)} = ToSet(R.refunits)
\* confinement
IsOp(o) == R.op = o
ObsCatKeepsSegments == IsOp("cat_shuffle") => SegsOf(After) = SegsOf(Before)
SeqDur(seq, a) == FoldSet(LAMBDA k, acc : acc + (seq[k][3] - seq[k][2]), 0, {k \in 1..Len(seq) : seq[k][1] = a})
ObsSplitDuration == IsOp("split") => \A a \in AnnsBefore : Abs(SeqDur(R.after, a) - SeqDur(R.before, a)) <= 2 + 2 * R.nsplits
ObsSplitCount == IsOp("split") => \A a \in AnnsBefore :
                     \/ CountOf(R.after, a) = CountOf(R.before, a) + R.nsplits
                     \/ /\ R.fallbacks > 0                                   \* zero-length fallback (a piece was refused): named branch
                        /\ CountOf(R.after, a) <= CountOf(R.before, a) + R.nsplits
                        /\ CountOf(R.after, a) + R.fallbacks >= CountOf(R.before, a) + R.nsplits
ObsSplitInside == IsOp("split") => \A u \in After : \E v \in Before : v[1] = u[1] /\ v[4] = u[4] /\ v[2] <= u[2] /\ u[3] <= v[3]
ObsFalseNegOnlyRemoves == IsOp("false_neg") => After \subseteq Before
ObsFalsePosOnlyAdds == IsOp("false_pos") => Before \subseteq After
ObsShiftKeepsCount == IsOp("shift") => \A a \in AnnsBefore : CountOf(R.after, a) = CountOf(R.before, a)
ObsSameAnnotators == R.op # "corpus_shuffle" => R.anns_after = R.anns_before

Init == tid \in 1..Len(Recs)
Next == UNCHANGED tid
Spec == Init /\ [][Next]_tid
Judge(name, ok) == ok \/ PrintT(ToJson([verdict |-> name, tid |-> tid]))
Verdicts ==
    /\ PrintT(ToJson([done |-> tid]))
    /\ Judge("ObsAnnotators", ObsAnnotators)
    /\ Judge("ObsNoneEmpty", ObsNoneEmpty)
    /\ Judge("ObsPositive", ObsPositive)
    /\ Judge("ObsCategories", ObsCategories)
    /\ Judge("ObsMagnitudeZero", ObsMagnitudeZero)
    /\ Judge("ObsCatKeepsSegments", ObsCatKeepsSegments)
    /\ Judge("ObsSplitDuration", ObsSplitDuration)
    /\ Judge("ObsSplitCount", ObsSplitCount)
    /\ Judge("ObsSplitInside", ObsSplitInside)
    /\ Judge("ObsFalseNegOnlyRemoves", ObsFalseNegOnlyRemoves)
    /\ Judge("ObsFalsePosOnlyAdds", ObsFalsePosOnlyAdds)
    /\ Judge("ObsShiftKeepsCount", ObsShiftKeepsCount)
    /\ Judge("ObsSameAnnotators", ObsSameAnnotators)
=============================================================================
