-------------------------------- MODULE Dissim --------------------------------
(***************************************************************************)
(* The documented formulas of the built-in dissimilarities, in exact        *)
(* rational arithmetic (a rational is <<num, den>>, den > 0).                *)
(* A unit is <<start, end, label>> on an integer grid; a label is the rank   *)
(* of its name in alphabetical order (1..); 0 = no label.                    *)
(***************************************************************************)
EXTENDS Integers, Sequences, FiniteSets, FiniteSetsExt, TLC

Abs(x) == IF x < 0 THEN -x ELSE x
RMul(a, b) == <<a[1] * b[1], a[2] * b[2]>>
RAdd(a, b) == <<a[1] * b[2] + b[1] * a[2], a[2] * b[2]>>
REq(a, b) == a[1] * b[2] = b[1] * a[2]
RLeq(a, b) == a[1] * b[2] <= b[1] * a[2]
RZero == <<0, 1>>

Dur(u) == u[2] - u[1]
\* positional-sporadic: ((|dstart| + |dend|) / (sum of durations))^2 * delta_empty
Pos(u, v, de) == LET n == Abs(u[1] - v[1]) + Abs(u[2] - v[2])
                     d == Dur(u) + Dur(v)
                 IN RMul(<<n * n, d * d>>, de)
\* absolute categorical: 0 for the same category name, delta_empty otherwise
AbsCat(u, v, de) == IF u[3] = v[3] THEN RZero ELSE de
\* precomputed: the matrix entry FOR THE TWO CATEGORY NAMES (M indexed by alphabetical rank) * delta_empty
PreCat(u, v, M, de) == RMul(M[u[3]][v[3]], de)
\* user-defined (LambdaCategoricalDissimilarity): F[i][j] = value of the user's function for the names of ranks i > j
\* (integers; the function is asked with the alphabetically LATER name first); the matrix is symmetric by construction,
\* zero on the diagonal, and divided by max(1, largest value asked for)
LamMax(F) == Max({1} \cup UNION {{F[i][j] : j \in 1..(i - 1)} : i \in 1..Len(F)})     \* over the values asked for (i > j)
LamCat(u, v, F, de) == IF u[3] = v[3] THEN RZero
                       ELSE LET hi == IF u[3] > v[3] THEN u[3] ELSE v[3]
                                lo == IF u[3] > v[3] THEN v[3] ELSE u[3]
                            IN RMul(<<F[hi][lo], LamMax(F)>>, de)
\* ordinal / numerical: proportional to the distance of the positions SUPPLIED FOR THOSE LABELS
\* (supplied[k] = rank of the k-th supplied label, pos[k] = its position)
PosOf(l, supplied, pos) == pos[CHOOSE k \in 1..Len(supplied) : supplied[k] = l]
OrdDist(u, v, supplied, pos) == Abs(PosOf(u[3], supplied, pos) - PosOf(v[3], supplied, pos))
\* combined: alpha * positional + beta * categorical, both with the combined dissimilarity's delta_empty
Comb(alpha, beta, p, c) == RAdd(RMul(alpha, p), RMul(beta, c))
=============================================================================
