------------------------------- MODULE PyGamma -------------------------------
(***************************************************************************)
(* The whole measure, composed: compute_gamma as the concurrent program of *)
(* GammaRun.tla, but with DATA.  The input is an alignment instance (see   *)
(* Align.tla), the sampler is a script - the k-th draw of the RNG stream   *)
(* returns script[k], an instance chosen by the environment from Pool -,   *)
(* every job computes the optimal (partition or cover) disorder of its     *)
(* instance with the operators of Align.tla, and the number of samples     *)
(* of the second batch is no longer "any value" but the value the          *)
(* documented rule gives for the disorders of the first batch:             *)
(*      N_req = ceil( (CV * 1.96 / p)^2 ),   CV = std / mean               *)
(* All arithmetic is exact: a disorder is  cost * n / (C(n,2) * units),    *)
(* carried as the integer  X = disorder * L  for a common multiple L.      *)
(* PyGamma refines GammaRun (same actions, Decide's choice resolved), so   *)
(* everything proved there about schedules holds here for VALUES.          *)
(***************************************************************************)
EXTENDS GammaRun

CONSTANTS Refs,     \* instances the input is chosen from
          Pool,     \* instances the scripted sampler may return
          Prec,     \* <<pa, pb>>: precision level pa/pb   (ignored unless HasPrecision)
          Mode,     \* "best" | "soft"
          L,        \* common multiple of the disorder denominators
          EmitScenarios

VARIABLES ref, script
pvars == <<gvars, ref, script>>

A == INSTANCE Align

Opt(I) == IF Mode = "soft" THEN A!MinCover(I, A!AllUnits(I), A!Cands(I, "none"))
          ELSE A!MinPart(I, A!AllUnits(I), A!Cands(I, "none"))
\* disorder * L  (the library: sum of the unitary disorders / average number of units per annotator)
Den(I) == A!C2N(I) * A!NumUnits(I)
X(I) == (Opt(I) * I.n * L) \div Den(I)
ASSUME \A I \in Refs \cup Pool : A!NumUnits(I) > 0 /\ (I.n * L) % Den(I) = 0

SumSeq(s) == LET RECURSIVE Go(_) Go(k) == IF k = 0 THEN 0 ELSE s[k] + Go(k - 1) IN Go(Len(s))
Xs(sc) == [k \in 1..Len(sc) |-> X(sc[k])]
Sq(s) == [k \in 1..Len(s) |-> s[k] * s[k]]
CeilDiv(a, b) == (a + b - 1) \div b

\* N_req from the first batch xs (population variance, as numpy's std): ceil( V * 1.96^2 * pb^2 / (S^2 * pa^2) )
\* with V = N * sum x^2 - S^2,  1.96^2 = 2401/625
ReqNum(xs) == (Len(xs) * SumSeq(Sq(xs)) - SumSeq(xs) * SumSeq(xs)) * 2401 * Prec[2] * Prec[2]
ReqDen(xs) == SumSeq(xs) * SumSeq(xs) * 625 * Prec[1] * Prec[1]
Req(xs) == IF SumSeq(xs) = 0 THEN 0 ELSE CeilDiv(ReqNum(xs), ReqDen(xs))
OnBoundary(xs) == SumSeq(xs) # 0 /\ ReqNum(xs) % ReqDen(xs) = 0 /\ ReqNum(xs) # 0     \* floats may round either way there

PGInit == Init /\ ref \in Refs /\ script = <<>>

\* the steps of GammaRun; a draw appends the instance the sampler returns; Decide follows the rule
PGNext ==
    /\ Next
    /\ ref' = ref
    \* a sample's annotators come from the input's annotators (ground truth = all of them): never more annotators than the input has
    /\ IF rngPos' > rngPos THEN \E I \in {J \in Pool : J.n <= ref.n} : script' = Append(script, I) ELSE script' = script
    /\ (pc = "decide" /\ HasPrecision) =>
            LET r == Req(Xs(SubSeq(script, 1, N))) IN extra' = (IF r > N THEN r - N ELSE 0)
PGSpec == PGInit /\ [][PGNext]_pvars /\ WF_pvars(PGNext)

(* ------------------------------ results ------------------------------ *)
T == N + extra
Chance == [k \in 1..Len(chance) |-> X(script[chance[k]])]        \* the values collected, in collection order
S == SumSeq(Chance)
GammaNum == S - T * X(ref)                                       \* gamma = 1 - observed / mean(chance) = GammaNum / S
Result == [obs |-> X(ref), chance |-> Chance, num |-> GammaNum, den |-> S]

(* ------------------------------ properties ------------------------------ *)
GammaRunSafe == Init /\ [][Next]_gvars                            \* PyGamma is GammaRun with the choices resolved
ValuesInDrawOrder == Returned => Chance = Xs(script) /\ Len(script) = T
CountExact == (Returned /\ HasPrecision) => T = (IF Req(Xs(SubSeq(script, 1, N))) > N THEN Req(Xs(SubSeq(script, 1, N))) ELSE N)
CountPlain == (Returned /\ ~HasPrecision) => T = N
GammaLeOne == (Returned /\ S > 0) => GammaNum <= S
OneIffPerfect == (Returned /\ S > 0) => ((GammaNum = S) = (X(ref) = 0))
ZeroOnSelf == (Returned /\ S > 0 /\ \A k \in 1..Len(script) : X(script[k]) = X(ref)) => GammaNum = 0
PGTerminates == <>(Returned \/ (pc = "decide" /\ HasPrecision /\ Req(Xs(SubSeq(script, 1, N))) - N > MaxExtra))

\* always TRUE; CONSTRAINT: prints every finished scenario with the spec's values
EmitS == (Returned /\ EmitScenarios) =>
            PrintT(ToJson([scenario |-> [ref |-> ref, script |-> script, n |-> N, extra |-> extra, mode |-> Mode,
                                         prec |-> (IF HasPrecision THEN Prec ELSE <<0, 1>>), l |-> L,
                                         boundary |-> (HasPrecision /\ OnBoundary(Xs(SubSeq(script, 1, N)))),
                                         completed |-> completed],
                           result |-> Result]))
\* (a behaviour whose second batch would exceed MaxExtra stops at "decide": Decide has no choice left)
=============================================================================
