----------------------------- MODULE TraceShuffle -----------------------------
(* Code -> spec for ShuffleContinuumSampler: every recorded sample is explained  *)
(* by TLC as "each sampled annotator = one ground-truth annotator shifted by one  *)
(* pivot with the wrap rule"; the pivots are INFERRED from the output (and must   *)
(* be among the uniform draws the sampler really made), then replayed through the *)
(* bookkeeping of ShuffleSampler.tla (RemoveFixed) to judge separation.           *)
(* Times are fixed-point integers (K per time unit); a unit is <<s, e, label>>.   *)
EXTENDS Integers, Sequences, FiniteSets, FiniteSetsExt, TLC, Json, IOUtils, SequencesExt

File == JsonDeserialize(IOEnv.TRACE_FILE)
Recs == File.recs

VARIABLE tid
R == Recs[tid]
N == Len(R.sample)
Tol == R.tol
K == R.K
Abs(x) == IF x < 0 THEN -x ELSE x
Near(x, y) == Abs(x - y) <= Tol

\* interval subtraction with this record's distance (same case analysis as ShuffleSampler!RemoveFixed)
Max2(a, b) == IF a > b THEN a ELSE b
Min2(a, b) == IF a < b THEN a ELSE b
RemoveZone(p, segs) == UNION {
    IF s[1] >= p - R.dist
      THEN IF s[2] <= p + R.dist THEN {} ELSE {<<Max2(p + R.dist, s[1]), s[2]>>}
      ELSE IF s[2] > p + R.dist THEN {<<s[1], p - R.dist>>, <<p + R.dist, s[2]>>}
                                ELSE {<<s[1], Min2(p - R.dist, s[2])>>} : s \in segs}

Len0 == R.hi - R.lo
\* images of unit u under pivot p: wrapped iff start + p > upper bound (either, within the rounding tolerance)
Images(u, p) ==
    (IF u[1] + p > R.hi - Tol THEN {<<u[1] + p - Len0, u[2] + p - Len0, u[3]>>} ELSE {})
    \cup (IF u[1] + p <= R.hi + Tol THEN {<<u[1] + p, u[2] + p, u[3]>>} ELSE {})
NearUnit(v, w) == Near(v[1], w[1]) /\ Near(v[2], w[2]) /\ v[3] = w[3]
Explains(k, a, p) ==
    /\ Len(R.sample[k]) = Len(R.gt[a])                                      \* same number of units
    /\ \A i \in 1..Len(R.gt[a]) : \E j \in 1..Len(R.sample[k]) : \E w \in Images(R.gt[a][i], p) : NearUnit(R.sample[k][j], w)
    /\ \A j \in 1..Len(R.sample[k]) : \E i \in 1..Len(R.gt[a]) : \E w \in Images(R.gt[a][i], p) : NearUnit(R.sample[k][j], w)
\* candidate pivots: the first sampled unit is the image of some source unit, wrapped or not
PivCands(k, a) == IF R.sample[k] = <<>> THEN {}
                  ELSE UNION {{R.sample[k][1][1] - R.gt[a][i][1], R.sample[k][1][1] - R.gt[a][i][1] + Len0} : i \in 1..Len(R.gt[a])}
\* an empty sampled annotator is the copy of an empty source annotator; its pivot is then any of the logged draws
TruncK(x) == IF x >= 0 THEN (x \div K) * K ELSE -(((-x) \div K) * K)
LoggedPivots == {R.uniforms[i] : i \in 1..Len(R.uniforms)} \cup
                (IF R.mode = 1 THEN {TruncK(R.uniforms[i]) : i \in 1..Len(R.uniforms)} ELSE {})
Assign(k) == IF R.sample[k] = <<>>
             THEN UNION {{<<a, p>> : p \in LoggedPivots} : a \in {b \in 1..Len(R.gt) : R.gt[b] = <<>>}}
             ELSE UNION {{<<a, p>> : p \in {q \in PivCands(k, a) : Explains(k, a, q)}} : a \in 1..Len(R.gt)}
Pivots(k) == {c[2] : c \in Assign(k)}

InAvail(p, avail) ==
    \E s \in avail :
        IF R.mode = 1                                    \* int(): p = trunc(x) for some x in the segment
        THEN IF p >= 0 THEN p <= s[2] + Tol /\ p + K > s[1] - Tol ELSE p >= s[1] - Tol /\ p - K < s[2] + Tol
        ELSE s[1] - Tol <= p /\ p <= s[2] + Tol

\* all ways of choosing one pivot per sampled annotator, replayed through the avail bookkeeping
\* (piv[k] = candidate pivots of sampled annotator k, computed once per record)
RECURSIVE Seqs(_, _, _, _)
Seqs(k, avail, acc, piv) ==
    IF k > N THEN {acc}
    ELSE IF piv[k] = {} THEN Seqs(k + 1, avail, Append(acc, <<0, FALSE, FALSE, FALSE>>), piv)
    ELSE UNION {Seqs(k + 1, IF avail # {} THEN RemoveZone(p, avail) ELSE avail,
                     Append(acc, <<p, avail # {},                                               \* pivot, drawn while room remained
                                   IF avail # {} THEN InAvail(p, avail) ELSE (R.lo - Tol <= p /\ p <= R.hi + Tol), TRUE>>), piv)
                : p \in piv[k]}
Sep(q, d) == \A i, j \in 1..N : (i < j /\ q[j][2] /\ q[i][4] /\ q[j][4]) => Abs(q[i][1] - q[j][1]) >= d

ObsAnnotatorCount == N = Len(R.gt)
ObsNonEmpty == \E k \in 1..N : R.sample[k] # <<>>
ObsTranslation(piv) == \A k \in 1..N : piv[k] # {}               \* a copy of ONE annotator shifted by ONE pivot, wrap rule
ObsPivotInBounds(Base) == \E q \in Base : \A k \in 1..N : q[k][4] =>
                        (IF R.mode = 1 THEN R.lo - K - Tol < q[k][1] ELSE R.lo - Tol <= q[k][1]) /\ q[k][1] <= R.hi + Tol
ObsPivotInBoundsStrict(Base) == \E q \in Base : \A k \in 1..N : q[k][4] => R.lo - Tol <= q[k][1] /\ q[k][1] <= R.hi + Tol
ObsIntPivot(Base) == R.mode = 1 => \E q \in Base : \A k \in 1..N : (q[k][4] /\ q[k][2]) => q[k][1] % K = 0
ObsSeparated(Base) == \E q \in Base : Sep(q, R.dist - Tol)
ObsSeparatedUpToTruncation(Base) == \E q \in Base : Sep(q, R.dist - K + 1 - Tol)
ObsPivotLogged(Base) == \E q \in Base : \A k \in 1..N : q[k][4] =>
                      \E i \in 1..Len(R.uniforms) :
                          \/ Near(q[k][1], R.uniforms[i])
                          \/ R.mode = 1 /\ q[k][1] % K = 0 /\ Abs(q[k][1] - R.uniforms[i]) < K + Tol

Init == tid \in 1..Len(Recs)
Next == UNCHANGED tid
Spec == Init /\ [][Next]_tid

Judge(name, ok) == ok \/ PrintT(ToJson([verdict |-> name, tid |-> tid]))
\* number of ways of choosing one pivot per sampled annotator (capped): beyond AmbigCap the choices are not enumerated and the
\* clauses about the pivots are not judged on that record (it is reported as "Ambiguous", which the harness counts, not alarms)
AmbigCap == 20000
RECURSIVE Ways(_, _)
Ways(k, piv) == IF k > N THEN 1
                ELSE LET w == Ways(k + 1, piv) IN Min2(AmbigCap + 1, w * (IF piv[k] = {} THEN 1 ELSE Cardinality(piv[k])))
Verdicts ==
    LET piv == [k \in 1..N |-> Pivots(k)]
        amb == Ways(1, piv) > AmbigCap
        all == IF amb THEN {} ELSE Seqs(1, {<<R.lo, R.hi>>}, <<>>, piv)
        good == {q \in all : \A k \in 1..N : q[k][3]}                \* each pivot in what was still available (else: in the bounds)
        base == IF good # {} THEN good ELSE all
    IN
    /\ PrintT(ToJson([done |-> tid]))
    /\ Judge("ObsAnnotatorCount", ObsAnnotatorCount)
    /\ Judge("ObsNonEmpty", ObsNonEmpty)
    /\ Judge("ObsTranslation", ObsTranslation(piv))
    /\ Judge("Ambiguous", ~amb)
    /\ Judge("ObsPivotFromAvail", amb \/ good # {})
    /\ Judge("ObsPivotInBounds", amb \/ ObsPivotInBounds(base))
    /\ Judge("ObsPivotInBoundsStrict", amb \/ ObsPivotInBoundsStrict(base))
    /\ Judge("ObsIntPivot", amb \/ ObsIntPivot(base))
    /\ Judge("ObsSeparated", amb \/ ObsSeparated(base))
    /\ Judge("ObsSeparatedUpToTruncation", amb \/ ObsSeparatedUpToTruncation(base))
    /\ Judge("ObsPivotLogged", amb \/ ObsPivotLogged(base))
=============================================================================
