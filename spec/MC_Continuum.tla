---------------------------- MODULE MC_Continuum ----------------------------
(* Bounded universe for exhaustive exploration of Continuum.tla and for    *)
(* generating the transition graph that is replayed into the real code.    *)
EXTENDS Continuum

CONSTANTS Annot, Times, Labels, MaxUnits, MaxDepth, WithMany

Segs == Times \X Times           \* includes empty (s = e) and reversed (s > e) segments

Init == heap = [o \in Obj |-> NoObj] /\ out = "ok"

Next ==
    \/ \E o \in Obj : New(o) \/ ResetBounds(o) \/ Drop(o)
    \/ \E o \in Obj, a \in Annot : AddAnnotator(o, a)
    \/ \E o \in Obj, a \in Annot, sg \in Segs, l \in Labels : Add(o, a, sg[1], sg[2], l)
    \/ \E o \in Obj, a \in Annot, sg \in {x \in Segs : x[1] < x[2]}, l \in Labels : Remove(o, a, sg[1], sg[2], l)
    \* whole pyannote objects: a timeline of two segments, an annotation with two labels on one segment (two tracks)
    \/ \E o \in Obj, a \in Annot, sgs \in {S \in SUBSET {x \in Segs : x[1] < x[2]} : WithMany /\ Cardinality(S) = 2} :
           AddMany("add_timeline", o, a, {<<x[1], x[2], NoLabel>> : x \in sgs})
    \/ \E o \in Obj, a \in Annot, sg \in {x \in Segs : WithMany /\ x[1] < x[2]} :
           AddMany("add_annotation", o, a, {<<sg[1], sg[2], l>> : l \in Labels \ {NoLabel}})
    \/ \E o, o2 \in Obj : Copy(o, o2) \/ CopyFlush(o, o2) \/ MergeInPlace(o, o2)
    \/ \E o, o2, o3 \in Obj : MergeNew("merge_new", o, o2, o3) \/ MergeNew("plus", o, o2, o3)

Spec == Init /\ [][Next]_cvars

Bound == /\ TLCGet("level") <= MaxDepth
         /\ \A o \in Live : Cardinality(heap[o].units) <= MaxUnits

(* ------------------------- action properties ------------------------- *)

\* a rejected call changes nothing
RejectedIsNoOp == [][out' # "ok" => heap' = heap]_cvars

\* every call touches at most one object (its target / its result): no aliasing between objects
OneObjectPerCall == [][Cardinality({o \in Obj : heap'[o] # heap[o]}) <= 1]_cvars

\* bounds never shrink except by reset_bounds
BoundsMonotone ==
    [][\A o \in Obj : (heap[o] # NoObj /\ heap'[o] # NoObj)
                       => \/ heap'[o].lo <= heap[o].lo /\ heap'[o].hi >= heap[o].hi
                          \/ heap'[o] = ResetVal(heap[o])]_cvars

\* after reset_bounds the bounds are exactly the extent of the units
ResetExact ==
    \A o \in Live : LET r == ResetVal(heap[o]) IN
        /\ r.units = heap[o].units
        /\ r.units # {} => /\ \E u \in r.units : u[2] = r.lo
                            /\ \E v \in r.units : v[3] = r.hi
                            /\ \A w \in r.units : r.lo <= w[2] /\ w[3] <= r.hi
        /\ r.units = {} => r.lo = Zero /\ r.hi = Zero

\* the strict order on the whole unit universe
Universe == {<<1, sg[1], sg[2], l>> : sg \in {x \in Segs : x[1] < x[2]}, l \in Labels}
StrictTotalOrder ==
    \A u, v, w \in Universe :
        /\ ~ULess(u, u)
        /\ u # v => (ULess(u, v) /\ ~ULess(v, u)) \/ (ULess(v, u) /\ ~ULess(u, v))
        /\ (ULess(u, v) /\ ULess(v, w)) => ULess(u, w)
ASSUME StrictTotalOrder
=============================================================================
