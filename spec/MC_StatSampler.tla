---------------------------- MODULE MC_StatSampler ----------------------------
(* all draw sequences over a small domain *)
EXTENDS StatSampler
CONSTANTS Dom, MaxUnits
SmallDom == {-2, -1, 0, 1, 3}
WideDom == {-5, -2, -1, 0, 1, 2, 7}
Next == \/ \E x \in Dom : DrawCount(x) \/ DrawGap(x) \/ DrawDuration(x, Abs(x))
        \/ \E c \in Cats : DrawCategory(c)
Spec == Init /\ [][Next]_stvars
Bound == Cardinality(out) <= MaxUnits /\ left <= MaxUnits
=============================================================================
