------------------------------ MODULE AlignObj ------------------------------
(***************************************************************************)
(* The life cycle of alignment OBJECTS (alignment.py): what an Alignment   *)
(* and its UnitaryAlignments carry as "disorder" under any history of      *)
(*   compute_disorder(d) / .disorder (lazy) / unitary .disorder (raises    *)
(*   until computed) / the disorder setter / the n_tuple setter (which     *)
(*   invalidates the unitary value) / UnitaryAlignment.compute_disorder,   *)
(* with TWO Alignment objects built over the SAME UnitaryAlignment objects *)
(* (object 1 without, object 2 possibly with a `disorder=` given to the    *)
(* constructor; each with or without an attached continuum).               *)
(*                                                                         *)
(* J = [n, sizes, Ds, des, att]: the instance of Align.tla with one table  *)
(* per dissimilarity (Ds[d], des[d]) and att[o] = "object o has a          *)
(* continuum attached" (its mean number of units per annotator is then the *)
(* continuum's, otherwise the number of real units it holds / n).          *)
(*                                                                         *)
(* A carried value is a pair <<S, M>>: S a sum of pair costs (Align.tla's  *)
(* scale), M the number of units it was divided by (n for a unitary value),*)
(* i.e. the library's float is  S * n / (M * C(n,2)).  None = <<-1, 1>>.   *)
(* The model is the code as it is: the total of an Alignment is NOT        *)
(* invalidated by the setters nor by a computation through the other       *)
(* object (named deviation `StaleTotalReachable`); what is guaranteed is   *)
(* FreshAgree: after compute_disorder(d) on an object and until the next   *)
(* setter / computation under another dissimilarity, everything it carries *)
(* is the definition under d.                                              *)
(***************************************************************************)
EXTENDS Align

VARIABLES tuples, ud, tot, fresh, ret, out
aovars == <<tuples, ud, tot, fresh, ret, out>>

None == -1
NoVal == <<None, 1>>
Objs == {1, 2}
ID(J, d) == [n |-> J.n, sizes |-> J.sizes, D |-> J.Ds[d], de |-> J.des[d]]
NTu == Len(tuples)
RealIn(J, t) == Cardinality({a \in 1..J.n : t[a] # J.sizes[a]})
SumTo(f, N) == FoldSet(LAMBDA k, acc : acc + f[k], 0, 1..N)
MeanUnits(J, o, tps) == IF J.att[o] THEN NumUnits(ID(J, 1))
                        ELSE SumTo([k \in 1..Len(tps) |-> RealIn(J, tps[k])], Len(tps))
Costs(J, d, tps) == [k \in 1..Len(tps) |-> SumCost(ID(J, d), tps[k])]
Total(J, o, d, tps) == <<SumTo(Costs(J, d, tps), Len(tps)), MeanUnits(J, o, tps)>>

InitObj(J, tps, computed, tot2) ==
    /\ tuples = tps
    /\ ud = IF computed THEN Costs(J, 1, tps) ELSE [k \in 1..Len(tps) |-> None]
    /\ tot = <<IF computed THEN Total(J, 1, 1, tps) ELSE NoVal, tot2>>
    /\ fresh = <<IF computed THEN 1 ELSE 0, 0>>
    /\ ret = NoVal /\ out = "ok"

(* alignment.compute_disorder(d): every unitary value and the total of THIS object *)
Compute(J, o, d, variant) ==
    /\ ud' = Costs(J, d, tuples)
    /\ tot' = IF variant = "total_kept_when_set" /\ tot[o] # NoVal THEN tot     \* mutant: the cached total survives
              ELSE [tot EXCEPT ![o] = Total(J, o, d, tuples)]
    /\ fresh' = [x \in Objs |-> IF x = o \/ fresh[x] = d THEN d ELSE 0]
    /\ ret' = tot'[o] /\ out' = "ok"
    /\ UNCHANGED tuples

(* alignment.disorder: the cached total, else sum of the unitary values / mean units, else ValueError *)
ReadTot(J, o) ==
    /\ IF tot[o] # NoVal THEN ret' = tot[o] /\ out' = "ok" /\ UNCHANGED tot
       ELSE IF \A k \in 1..NTu : ud[k] # None
            THEN /\ tot' = [tot EXCEPT ![o] = <<SumTo(ud, NTu), MeanUnits(J, o, tuples)>>]
                 /\ ret' = tot'[o] /\ out' = "ok"
            ELSE ret' = NoVal /\ out' = "raise" /\ UNCHANGED tot
    /\ UNCHANGED <<tuples, ud, fresh>>

ReadUd(J, k) ==
    /\ k \in 1..NTu
    /\ ret' = <<ud[k], J.n>>
    /\ out' = IF ud[k] = None THEN "raise" ELSE "ok"
    /\ UNCHANGED <<tuples, ud, tot, fresh>>

SetUd(J, k, v) ==
    /\ k \in 1..NTu
    /\ ud' = [ud EXCEPT ![k] = v]
    /\ fresh' = [x \in Objs |-> 0]
    /\ ret' = NoVal /\ out' = "ok"
    /\ UNCHANGED <<tuples, tot>>

(* the n_tuple setter: the unitary value is forgotten (the totals are not: see StaleTotalReachable) *)
SetTuple(J, k, t, variant) ==
    /\ k \in 1..NTu
    /\ tuples' = [tuples EXCEPT ![k] = t]
    /\ ud' = IF variant = "setter_keeps_value" THEN ud ELSE [ud EXCEPT ![k] = None]      \* mutant
    /\ fresh' = [x \in Objs |-> 0]
    /\ ret' = NoVal /\ out' = "ok"
    /\ UNCHANGED tot

(* UnitaryAlignment.compute_disorder(d), on a unitary alignment without empty slot (with one: known finding of C03) *)
UCompute(J, k, d) ==
    /\ k \in 1..NTu
    /\ RealIn(J, tuples[k]) = J.n
    /\ ud' = [ud EXCEPT ![k] = SumCost(ID(J, d), tuples[k])]
    /\ fresh' = [x \in Objs |-> IF fresh[x] = d THEN d ELSE 0]
    /\ ret' = <<ud'[k], J.n>> /\ out' = "ok"
    /\ UNCHANGED <<tuples, tot>>

(* ------------------------------ properties ------------------------------ *)
FreshAgree(J) == \A o \in Objs : fresh[o] > 0 =>
                    /\ tot[o] = Total(J, o, fresh[o], tuples)
                    /\ ud = Costs(J, fresh[o], tuples)
\* a value a unitary alignment carries was computed from (or set for) the tuple it holds now
Invalidated == [][\A k \in 1..NTu : tuples'[k] # tuples[k] => ud'[k] = None]_aovars
\* the lazily formed total never invents a value
LazyTotalStep(J) == \A o \in Objs : (tot[o] = NoVal /\ tot'[o] # NoVal /\ ud' = ud /\ \A k \in 1..NTu : ud[k] # None) =>
                        tot'[o] = <<SumTo(ud, NTu), MeanUnits(J, o, tuples)>>
\* the deviation of the code from "every carried value agrees": must be REACHABLE (its negation is checked and must fail)
TotalsAlwaysAgree(J) == \A o \in Objs : (tot[o] # NoVal /\ \A k \in 1..NTu : ud[k] # None) =>
                            tot[o] = <<SumTo(ud, NTu), MeanUnits(J, o, tuples)>>
=============================================================================
