-------------------------------- MODULE Align --------------------------------
(***************************************************************************)
(* The alignment problem of pygamma-agreement, as pure operators over an   *)
(* instance  I = [n, sizes, D, de]:                                        *)
(*   n      number of annotators (>= 2), annotators are 1..n in the        *)
(*          library's (alphabetical) order                                 *)
(*   sizes  sizes[a] = number of units of annotator a (units 0..sizes[a]-1 *)
(*          in the library's unit order)                                   *)
(*   D      D[a][b][i+1][j+1] = dissimilarity of unit i of a and unit j of *)
(*          b, for a < b, as a scaled integer                              *)
(*   de     delta_empty on the same scale                                  *)
(* A unitary alignment is a tuple t \in [1..n -> Nat] in the CODE's own    *)
(* encoding: t[a] < sizes[a] is a real unit, t[a] = sizes[a] the empty one.*)
(* Costs are SUMS over the annotator pairs (the library's "disorder" is    *)
(* that sum divided by C(n,2)).                                            *)
(***************************************************************************)
EXTENDS Integers, Sequences, FiniteSets, FiniteSetsExt, TLC

Ann(I) == 1..I.n
Pairs(I) == {p \in Ann(I) \X Ann(I) : p[1] < p[2]}
C2N(I) == (I.n * (I.n - 1)) \div 2
NumUnits(I) == FoldSet(LAMBDA a, acc : acc + I.sizes[a], 0, Ann(I))
AllUnits(I) == UNION {{<<a, i>> : i \in 0..(I.sizes[a] - 1)} : a \in Ann(I)}

IsNull(I, t, a) == t[a] = I.sizes[a]
AllNull(I) == [a \in Ann(I) |-> I.sizes[a]]
Tuples(I) == {t \in [Ann(I) -> 0..Max({I.sizes[a] : a \in Ann(I)})] : \A a \in Ann(I) : t[a] <= I.sizes[a]}
TUnits(I, t) == {<<a, t[a]>> : a \in {b \in Ann(I) : ~IsNull(I, t, b)}}

(* pair cost: delta_empty as soon as one side is the empty unit *)
PairCost(I, t, a, b) == IF IsNull(I, t, a) \/ IsNull(I, t, b) THEN I.de
                        ELSE I.D[a][b][t[a] + 1][t[b] + 1]
SumCost(I, t) == FoldSet(LAMBDA p, acc : acc + PairCost(I, t, p[1], p[2]), 0, Pairs(I))

(* the pruning threshold of Mathet et al. 2015, 5.1.1: disorder <= n * delta_empty *)
Crit(I, variant) == IF variant = "crit_without_n" THEN C2N(I) * I.de       \* mutant: the factor n forgotten
                    ELSE C2N(I) * I.de * I.n
Cands(I, variant) == {t \in Tuples(I) \ {AllNull(I)} : SumCost(I, t) <= Crit(I, variant)}

(* ---- well-formedness of an alignment given as a sequence of tuples ---- *)
Occurrences(I, al, u) == Cardinality({k \in 1..Len(al) : al[k][u[1]] = u[2]})
WellFormedTuple(I, t) == /\ DOMAIN t = Ann(I)
                         /\ \A a \in Ann(I) : t[a] \in 0..I.sizes[a]
                         /\ \E a \in Ann(I) : ~IsNull(I, t, a)
IsPartition(I, al) == /\ \A k \in 1..Len(al) : WellFormedTuple(I, al[k])
                      /\ \A u \in AllUnits(I) : Occurrences(I, al, u) = 1
IsCover(I, al) == /\ \A k \in 1..Len(al) : WellFormedTuple(I, al[k])
                  /\ \A u \in AllUnits(I) : Occurrences(I, al, u) >= 1
AlCost(I, al) == FoldSet(LAMBDA k, acc : acc + SumCost(I, al[k]), 0, 1..Len(al))

(* ---- exact optimum by first-uncovered branching (small instances only) ---- *)
Big == 100000000
First(S) == CHOOSE x \in S : \A y \in S : (x[1] < y[1]) \/ (x[1] = y[1] /\ x[2] <= y[2])

RECURSIVE MinPart(_, _, _)
MinPart(I, U, cs) ==
    IF U = {} THEN 0
    ELSE LET u == First(U)
             opts == {t \in cs : u \in TUnits(I, t) /\ TUnits(I, t) \subseteq U}
         IN IF opts = {} THEN Big
            ELSE Min({SumCost(I, t) + MinPart(I, U \ TUnits(I, t), cs) : t \in opts})

RECURSIVE MinCover(_, _, _)
MinCover(I, U, cs) ==
    IF U = {} THEN 0
    ELSE LET u == First(U)
             opts == {t \in cs : u \in TUnits(I, t)}
         IN IF opts = {} THEN Big
            ELSE Min({SumCost(I, t) + MinCover(I, U \ TUnits(I, t), cs) : t \in opts})

(* the two ways the library states "every unit exactly once" to its MIP back-ends *)
FeasibleCBC(I, chosen) == \A u \in AllUnits(I) : Cardinality({t \in chosen : u \in TUnits(I, t)}) = 1
FeasibleGLPK(I, chosen) == \A u \in AllUnits(I) : /\ 1 <= Cardinality({t \in chosen : u \in TUnits(I, t)})
                                                  /\ Cardinality({t \in chosen : u \in TUnits(I, t)}) <= 1
=============================================================================
