-------------------------------- MODULE MC_Cst --------------------------------
EXTENDS Cst
CONSTANTS MaxSteps, MaxUnits
RefA == {<<0, 2, 1>>, <<2, 4, 2>>}
RefB == {<<0, 3, 1>>, <<1, 3, 2>>, <<3, 4, 1>>}
Bound == steps <= MaxSteps /\ Cardinality(units) <= MaxUnits
=============================================================================
