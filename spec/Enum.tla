-------------------------------- MODULE Enum --------------------------------
(***************************************************************************)
(* The candidate enumerator of _get_all_valid_alignments, step by step:    *)
(* a mixed-radix counter (first annotator fastest, index sizes[a] = empty  *)
(* unit, so the all-empty tuple comes LAST), a filter, an output buffer    *)
(* that grows by half its capacity when it fills up, and a final slice     *)
(* that drops the last stored entry (the all-empty tuple).                 *)
(* The filter is abstract: `pass` is ANY set of tuples containing the      *)
(* all-empty one (Align.tla shows it always passes).                       *)
(***************************************************************************)
EXTENDS Integers, Sequences, FiniteSets, FiniteSetsExt, TLC

CONSTANTS NA, MaxU, MaxTuples, Chunk, Variant

VARIABLES sizes, pass, cur, buf, cap, iChosen, phase
evars == <<sizes, pass, cur, buf, cap, iChosen, phase>>

AnnS == 1..NA
TuplesOf(sz) == {t \in [AnnS -> 0..MaxU] : \A a \in AnnS : t[a] <= sz[a]}
AllNullOf(sz) == [a \in AnnS |-> sz[a]]
Garbage == <<>>

\* rank of a tuple in the library's iteration order (first coordinate fastest)
RECURSIVE Weight(_, _)
Weight(sz, a) == IF a = 1 THEN 1 ELSE Weight(sz, a - 1) * (sz[a - 1] + 1)
Rank(sz, t) == FoldSet(LAMBDA a, acc : acc + t[a] * Weight(sz, a), 0, AnnS)
NumTuples(sz) == Weight(sz, NA) * (sz[NA] + 1)

Init == /\ sizes \in {sz \in [AnnS -> 0..MaxU] : NumTuples(sz) <= MaxTuples /\ \E a \in AnnS : sz[a] > 0}
        /\ pass \in {P \cup {AllNullOf(sizes)} : P \in SUBSET (TuplesOf(sizes) \ {AllNullOf(sizes)})}
        /\ cur = [a \in AnnS |-> 0]
        /\ cap = Chunk
        /\ buf = [k \in 1..Chunk |-> Garbage]
        /\ iChosen = 0
        /\ phase = "iter"

\* the successor of the counter, or <<>> at the end
RECURSIVE Succ(_, _, _)
Succ(sz, t, a) == IF a > NA THEN <<>>
                  ELSE IF t[a] + 1 <= sz[a] THEN [t EXCEPT ![a] = @ + 1]
                  ELSE Succ(sz, [t EXCEPT ![a] = 0], a + 1)

Grow(b, c, add) == [k \in 1..(c + add) |->
                      IF k <= (IF Variant = "grow_drops_last" THEN c - 1 ELSE c) THEN b[k] ELSE Garbage]

EnumStep ==
    /\ phase = "iter"
    /\ IF cur \in pass
         THEN LET b1 == [buf EXCEPT ![iChosen + 1] = cur]
                  i1 == iChosen + 1
              IN /\ iChosen' = i1
                 /\ IF i1 = cap
                      THEN buf' = Grow(b1, cap, cap \div 2) /\ cap' = cap + cap \div 2
                      ELSE buf' = b1 /\ cap' = cap
         ELSE UNCHANGED <<buf, cap, iChosen>>
    /\ LET nx == Succ(sizes, cur, 1)
       IN IF nx = <<>> THEN phase' = "slice" /\ cur' = cur
          ELSE phase' = "iter" /\ cur' = nx
    /\ UNCHANGED <<sizes, pass>>

Slice ==
    /\ phase = "slice"
    /\ LET keep == IF Variant = "slice_keeps_last" THEN iChosen ELSE iChosen - 1     \* [:i_chosen - 1]
       IN buf' = [k \in 1..keep |-> buf[k]]
    /\ phase' = "done"
    /\ UNCHANGED <<sizes, pass, cur, cap, iChosen>>

Next == EnumStep \/ Slice
Spec == Init /\ [][Next]_evars /\ WF_evars(Next)

(* ------------------------------ properties ------------------------------ *)
Expected == {t \in pass : t # AllNullOf(sizes)}

\* after the slice: exactly the passing tuples except the all-empty one, once each, in iteration order
Refines == phase = "done" =>
    /\ Len(buf) = Cardinality(Expected)
    /\ {buf[k] : k \in 1..Len(buf)} = Expected
    /\ \A i, j \in 1..Len(buf) : i < j => Rank(sizes, buf[i]) < Rank(sizes, buf[j])

\* while iterating: everything stored so far is kept, also across growth
GrowKeeps == phase \in {"iter", "slice"} =>
    /\ iChosen < cap
    /\ \A k \in 1..iChosen : buf[k] # Garbage /\ buf[k] \in pass
    /\ \A i, j \in 1..iChosen : i < j => Rank(sizes, buf[i]) < Rank(sizes, buf[j])

\* the all-empty tuple is the last one visited, hence the last one stored
AllNullLast == phase = "slice" => cur = AllNullOf(sizes) /\ iChosen >= 1 /\ buf[iChosen] = AllNullOf(sizes)

\* every tuple is visited exactly once: the rank of the counter increases by one per step
VisitOrder == [][phase = "iter" /\ phase' = "iter" => Rank(sizes, cur') = Rank(sizes, cur) + 1]_evars
VisitsAll == phase = "slice" => Rank(sizes, cur) = NumTuples(sizes) - 1

Terminates == <>(phase = "done")
=============================================================================
