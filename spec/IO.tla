----------------------------------- MODULE IO -----------------------------------
(***************************************************************************)
(* File import / export at the level the library is responsible for:       *)
(*   - CSV rows <-> units (order of columns, zero-length rows discarded or  *)
(*     rejected as requested, label and annotator text carried verbatim);   *)
(*   - the CSV FIELD codec over a 6-symbol alphabet (letter, delimiter,     *)
(*     quote, space, LF, CR) with the text layer in between: files must be  *)
(*     opened without newline translation or CR inside a quoted field is    *)
(*     not preserved (variant "translate_newlines" = the library before its *)
(*     fix);                                                                *)
(*   - tiered interval files (TextGrid / ELAN): one unit per interval with  *)
(*     a non-empty mark of each selected tier, labelled by the mark or by   *)
(*     the tier name.                                                       *)
(***************************************************************************)
EXTENDS Integers, Sequences, FiniteSets, FiniteSetsExt, SequencesExt, TLC

(* ---------------- CSV field codec ---------------- *)
Sym == {"L", "D", "Q", "S", "N", "R"}
NeedsQuote(f) == \E i \in 1..Len(f) : f[i] \in {"D", "Q", "N", "R"}
RECURSIVE DoubleQ(_)
DoubleQ(f) == IF f = <<>> THEN <<>> ELSE (IF Head(f) = "Q" THEN <<"Q", "Q">> ELSE <<Head(f)>>) \o DoubleQ(Tail(f))
Encode(f) == IF NeedsQuote(f) THEN <<"Q">> \o DoubleQ(f) \o <<"Q">> ELSE f
\* the text layer between writer and reader
RECURSIVE Translate(_)
Translate(t) == IF t = <<>> THEN <<>>
                ELSE IF Head(t) = "R" THEN (IF Len(t) >= 2 /\ t[2] = "N" THEN <<"N">> \o Translate(Tail(Tail(t))) ELSE <<"N">> \o Translate(Tail(t)))
                ELSE <<Head(t)>> \o Translate(Tail(t))
TextLayer(t, variant) == IF variant = "translate_newlines" THEN Translate(t) ELSE t
RECURSIVE UnDoubleQ(_)
UnDoubleQ(t) == IF t = <<>> THEN <<>>
                ELSE IF Head(t) = "Q" /\ Len(t) >= 2 /\ t[2] = "Q" THEN <<"Q">> \o UnDoubleQ(Tail(Tail(t)))
                ELSE <<Head(t)>> \o UnDoubleQ(Tail(t))
Decode(t) == IF t # <<>> /\ Head(t) = "Q" THEN UnDoubleQ(SubSeq(t, 2, Len(t) - 1)) ELSE t
RoundTrip(f, variant) == Decode(TextLayer(Encode(f), variant)) = f

(* ---------------- CSV rows ---------------- *)
\* a row is <<annotator, label, start, end>> ; the continuum read from a file
ZeroLength(r) == r[3] >= r[4]
CsvOutcome(rows, discard) == IF ~discard /\ \E i \in 1..Len(rows) : ZeroLength(rows[i]) THEN "rejected" ELSE "ok"
CsvUnits(rows) == {<<rows[i][1], rows[i][3], rows[i][4], rows[i][2]>> : i \in {k \in 1..Len(rows) : ~ZeroLength(rows[k])}}
CsvAnnotators(rows) == {rows[i][1] : i \in {k \in 1..Len(rows) : ~ZeroLength(rows[k])}}

(* ---------------- tiered interval files ---------------- *)
\* file[t] = sequence of intervals <<start, end, mark>> of tier t (mark 0 = empty); sel = [all |-> no selection given, tiers |-> set of selected tiers]
TierUnits(file, sel, useTier) ==
    UNION {{<<file[t][i][1], file[t][i][2], IF useTier THEN <<"tier", t>> ELSE <<"mark", file[t][i][3]>>>> :
                i \in {k \in 1..Len(file[t]) : file[t][k][3] # 0}} :
           t \in {x \in 1..Len(file) : sel.all \/ x \in sel.tiers}}
=============================================================================
