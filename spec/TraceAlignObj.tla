--------------------------- MODULE TraceAlignObj ---------------------------
(***************************************************************************)
(* Code -> spec for the alignment-object life cycle (AlignObj.tla).        *)
(* Every record is a history of operations on two real Alignment objects   *)
(* sharing their UnitaryAlignment objects, over a real continuum and two   *)
(* real dissimilarities whose tables are in the record.  Each event        *)
(* carries the operation, its outcome (ok / raise), the value it returned  *)
(* (x C(n,2) x scale x 64, rounded) and the state projected through the    *)
(* public accessors after it (unitary disorders, mean units per annotator, *)
(* counts).  The model takes the same step; named clauses compare.         *)
(***************************************************************************)
EXTENDS AlignObj, Json, IOUtils, SequencesExt

File == JsonDeserialize(IOEnv.TRACE_FILE)
Recs == File.recs

VARIABLES tid, l
tvars == <<tuples, ud, tot, fresh, ret, out, tid, l>>

R == Recs[tid]
J == [n |-> R.n, sizes |-> R.sizes, Ds |-> R.Ds, des |-> R.des, att |-> <<R.att[1] = 1, R.att[2] = 1>>]
Ev == R.ev
E == Ev[l]
F == 64

Init == /\ tid \in 1..Len(Recs) /\ l = 1
        /\ InitObj(J, R.tuples, R.computed = 1, IF R.tot2 < 0 THEN NoVal ELSE <<R.tot2, R.n>>)

Step == /\ l <= Len(Ev)
        /\ l' = l + 1 /\ tid' = tid
        /\ CASE E.op = "compute" -> Compute(J, E.o, E.d, "code")
             [] E.op = "readtot" -> ReadTot(J, E.o)
             [] E.op = "readud" -> ReadUd(J, E.k)
             [] E.op = "setud" -> SetUd(J, E.k, E.v)
             [] E.op = "settuple" -> SetTuple(J, E.k, E.t, "code")
             [] E.op = "ucompute" -> UCompute(J, E.k, E.d)

Spec == Init /\ [][Step]_tvars

Prev == Ev[l - 1]
Abs(x) == IF x < 0 THEN -x ELSE x
\* observed float x C(n,2) x scale x F  against the carried pair <<S, M>> (float = S n / (M C(n,2) scale))
NearVal(obs, pair, tol) == Abs(obs * pair[2] - pair[1] * R.n * F) <= tol * pair[2]

ObsOutcome == Prev.out = out
ObsReturn == (out = "ok" /\ Prev.out = "ok" /\ ret # NoVal) => NearVal(Prev.ret, ret, R.tol)
ObsUdState == /\ Len(Prev.sud) = NTu
              /\ \A k \in 1..NTu : IF ud[k] = None THEN Prev.sud[k] = -1
                                     ELSE Prev.sud[k] # -1 /\ NearVal(Prev.sud[k], <<ud[k], R.n>>, R.tol)
ObsMeanUnits == \A o \in Objs : Prev.mu[o] = MeanUnits(J, o, tuples)
ObsCounts == Prev.nua = NTu /\ Prev.nann = R.n

Judge(name, ok) == ok \/ PrintT(ToJson([verdict |-> name, tid |-> tid, l |-> l - 1]))

Verdicts ==
    /\ l = 1 => PrintT(ToJson([started |-> tid]))
    /\ l = Len(Ev) + 1 => PrintT(ToJson([done |-> tid]))
    /\ l > 1 =>
        /\ Judge("ObsOutcome", ObsOutcome)
        /\ Judge("ObsReturn", ObsReturn)
        /\ Judge("ObsUdState", ObsUdState)
        /\ Judge("ObsMeanUnits", ObsMeanUnits)
        /\ Judge("ObsCounts", ObsCounts)
=============================================================================
