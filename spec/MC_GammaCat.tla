------------------------------ MODULE MC_GammaCat ------------------------------
(* every alignment of <= MaxT unitary alignments over a small unit universe *)
EXTENDS GammaCat
CONSTANTS NA, MaxT, Alphas, DEs
Units == {<<s, s + k, l>> : s \in 0..1, k \in 1..2, l \in 1..2} \cup {<<>>}
Tuples == {t \in [1..NA -> Units] : \E i \in 1..NA : IsReal(t[i])}
VARIABLES al, A, cat
Init == /\ al \in UNION {[1..k -> Tuples] : k \in 1..MaxT}
        /\ A \in {[alpha |-> a, ad |-> 1, de |-> d, cattype |-> "abs", M |-> <<>>] : a \in Alphas, d \in DEs}
        /\ cat \in {0, 1, 3}                       \* gamma-cat, a present category, an absent one
Next == UNCHANGED <<al, A, cat>>
Spec == Init /\ [][Next]_<<al, A, cat>>
NonNegative == Num(A, al, cat) >= 0 /\ Den(A, al, cat) >= 0
\* a weighted mean of values in [0, delta_empty]: never above delta_empty
Bounded == Num(A, al, cat) <= 4 * A.de * Den(A, al, cat)
ZeroWhenAgree == Agree(al) => Num(A, al, cat) = 0
\* nothing counts for a category that does not occur
AbsentCategory == cat = 3 => Num(A, al, cat) = 0 /\ Den(A, al, cat) = 0
\* gamma-k restricted to the pairs of gamma-cat
KIsRestriction == Den(A, al, cat) <= Den(A, al, 0) /\ Num(A, al, cat) <= Num(A, al, 0)
=============================================================================
