---------------------------------- MODULE MC_IO ----------------------------------
EXTENDS IO, Json
CONSTANTS MaxLen, Variant, MaxRows, Mode, Emit
VARIABLES case
Fields == UNION {[1..k -> Sym] : k \in 0..MaxLen}
Segs == {<<0, 1>>, <<1, 1>>, <<1, 0>>, <<0, 2>>}
Rows == {<<a, l, sg[1], sg[2]>> : a \in 1..2, l \in 1..2, sg \in Segs}
Intervals == {<<0, 1, 0>>, <<0, 1, 1>>, <<1, 2, 2>>, <<1, 2, 0>>}
TierContents == {<<>>} \cup {<<i>> : i \in Intervals} \cup {<<i, j>> : i \in {x \in Intervals : x[1] = 0}, j \in {x \in Intervals : x[1] = 1}}
Sels == {[all |-> TRUE, tiers |-> {}]} \cup {[all |-> FALSE, tiers |-> x] : x \in SUBSET {1, 2}}
Init == case \in
    IF Mode = "codec" THEN {[kind |-> "codec", f |-> f] : f \in Fields}
    ELSE IF Mode = "csv" THEN {[kind |-> "csv", rows |-> r, discard |-> d] : r \in UNION {[1..k -> Rows] : k \in 0..MaxRows}, d \in BOOLEAN}
    ELSE {[kind |-> "tiers", file |-> <<t1, t2>>, sel |-> s, useTier |-> u] : t1 \in TierContents, t2 \in TierContents, s \in Sels, u \in BOOLEAN}
Next == UNCHANGED case
Spec == Init /\ [][Next]_case
CodecRoundTrip == case.kind = "codec" => RoundTrip(case.f, Variant)
DiscardNeverFails == case.kind = "csv" => (case.discard => CsvOutcome(case.rows, TRUE) = "ok")
NoZeroLengthUnit == case.kind = "csv" => \A u \in CsvUnits(case.rows) : u[2] < u[3]
EmptySelectionIsEmpty == case.kind = "tiers" => ((~case.sel.all /\ case.sel.tiers = {}) => TierUnits(case.file, case.sel, case.useTier) = {})
EmitCase == Emit =>
    IF case.kind = "csv" THEN PrintT(ToJson([kind |-> "csv", rows |-> case.rows, discard |-> case.discard,
                                             outcome |-> CsvOutcome(case.rows, case.discard), units |-> CsvUnits(case.rows),
                                             annotators |-> CsvAnnotators(case.rows)]))
    ELSE IF case.kind = "tiers" THEN PrintT(ToJson([kind |-> "tiers", file |-> case.file, selall |-> case.sel.all, sel |-> SetToSeq(case.sel.tiers),
                                                    useTier |-> case.useTier, units |-> TierUnits(case.file, case.sel, case.useTier)]))
    ELSE TRUE
=============================================================================
