------------------------------ MODULE GammaAtomic ------------------------------
(* What compute_gamma is from the caller's point of view: ONE atomic step that turns   *)
(* the RNG stream (a seed) into the sequence of chance results 1, 2, ..., n + extra     *)
(* (sample k = the k-th draw of the stream) for some extra the data decides.            *)
(* GammaRun.tla (main thread + worker pool, any schedule) must IMPLEMENT this spec      *)
(* under the refinement mapping given there: that is schedule-independence stated as    *)
(* refinement instead of as an invariant.                                               *)
EXTENDS Integers, Sequences
CONSTANTS N, MaxExtra, HasPrecision
VARIABLES st, result
Init == st = "running" /\ result = <<>>
Return == /\ st = "running"
          /\ \E x \in 0..MaxExtra :
                /\ HasPrecision \/ x = 0
                /\ result' = [k \in 1..(N + x) |-> k]
          /\ st' = "returned"
Next == Return
Spec == Init /\ [][Next]_<<st, result>> /\ WF_<<st, result>>(Next)
=============================================================================
