------------------------------ MODULE GammaRun ------------------------------
(***************************************************************************)
(* compute_gamma as a concurrent program: the main thread draws samples    *)
(* from the global RNG stream (position rngPos) and submits one job per    *)
(* sample to a pool of workers; jobs are pure functions of their sample;   *)
(* results are collected in submission order; if a precision level is      *)
(* given, a second batch of (required - n) samples follows.                *)
(* Job 0 is the alignment of the input; jobs 1..N the first batch;         *)
(* N+1..N+extra the second batch.  A sample is identified with the RNG     *)
(* position at which it was drawn, so `chance = <<1, 2, ...>>` says: the   *)
(* result depends on the seed only, not on the schedule.                   *)
(***************************************************************************)
EXTENDS Integers, Sequences, FiniteSets, TLC, Json

CONSTANTS N,            \* n_samples
          MaxExtra,     \* bound on the second batch (required - n), chosen by the environment (depends on the CV)
          HasPrecision, \* a precision level was given
          Workers,      \* set of worker threads
          Variant,      \* "none" | "draw_in_worker" (sampling moved into the job) | "collect_as_completed"
          EmitSchedules \* TRUE: print the order in which jobs completed, for every finished behaviour (spec -> code)

VARIABLES pc, i, extra, rngPos, sampleOf, queue, running, doneJ, resultOf, chance, best, completed
gvars == <<pc, i, extra, rngPos, sampleOf, queue, running, doneJ, resultOf, chance, best, completed>>

Jobs == 0..(N + MaxExtra)
None == -1

Init == /\ pc = "submit_best" /\ i = 1 /\ extra = 0 /\ rngPos = 0
        /\ sampleOf = [j \in Jobs |-> None] /\ queue = <<>> /\ running = [w \in Workers |-> None]
        /\ doneJ = {} /\ resultOf = [j \in Jobs |-> None] /\ chance = <<>> /\ best = None /\ completed = <<>>

SubmitBest ==
    /\ pc = "submit_best"
    /\ queue' = Append(queue, 0) /\ pc' = "draw1"
    /\ UNCHANGED <<i, extra, rngPos, sampleOf, running, doneJ, resultOf, chance, best, completed>>

\* main thread: draw sample i (advancing the RNG stream) and submit its job, or move on
Draw(phase, nextphase, lastj) ==
    /\ pc = phase
    /\ IF i > lastj
         THEN pc' = nextphase /\ i' = (IF phase = "draw2" THEN N + 1 ELSE 1) /\ UNCHANGED <<rngPos, sampleOf, queue>>
         ELSE /\ IF Variant = "draw_in_worker" THEN UNCHANGED <<rngPos, sampleOf>>
                 ELSE rngPos' = rngPos + 1 /\ sampleOf' = [sampleOf EXCEPT ![i] = rngPos + 1]
              /\ queue' = Append(queue, i) /\ i' = i + 1 /\ pc' = phase
    /\ UNCHANGED <<extra, running, doneJ, resultOf, chance, best, completed>>

AwaitBest ==
    /\ pc = "await_best" /\ 0 \in doneJ
    /\ best' = resultOf[0] /\ pc' = "await1" /\ i' = 1
    /\ UNCHANGED <<extra, rngPos, sampleOf, queue, running, doneJ, resultOf, chance, completed>>

\* main thread: collect results in submission order (mutant: in completion order)
Await(phase, nextphase, firstj, lastj) ==
    /\ pc = phase
    /\ IF i > lastj
         THEN pc' = nextphase /\ UNCHANGED <<i, chance>>
         ELSE IF Variant = "collect_as_completed"
              THEN LET got == {completed[k] : k \in 1..Len(completed)} \cap (firstj..lastj)
                       taken == {j \in firstj..lastj : \E k \in 1..Len(chance) : chance[k] = resultOf[j] /\ resultOf[j] # None}
                   IN \E j \in got \ taken : chance' = Append(chance, resultOf[j]) /\ i' = i + 1 /\ pc' = phase
              ELSE i \in doneJ /\ chance' = Append(chance, resultOf[i]) /\ i' = i + 1 /\ pc' = phase
    /\ UNCHANGED <<extra, rngPos, sampleOf, queue, running, doneJ, resultOf, best, completed>>

\* required_samples from the coefficient of variation of the first batch: any value (environment)
Decide ==
    /\ pc = "decide"
    /\ IF HasPrecision
         THEN \E x \in 0..MaxExtra : extra' = x /\ pc' = (IF x > 0 THEN "draw2" ELSE "return")
         ELSE extra' = 0 /\ pc' = "return"              \* no precision level: no extra sample is drawn
    /\ i' = N + 1
    /\ UNCHANGED <<rngPos, sampleOf, queue, running, doneJ, resultOf, chance, best, completed>>

\* a worker takes the oldest queued job
Start(w) ==
    /\ running[w] = None /\ queue # <<>>
    /\ running' = [running EXCEPT ![w] = Head(queue)] /\ queue' = Tail(queue)
    /\ UNCHANGED <<pc, i, extra, rngPos, sampleOf, doneJ, resultOf, chance, best, completed>>

\* mutant only: the job itself draws its sample when it gets to run
WDraw(w) ==
    /\ Variant = "draw_in_worker" /\ running[w] # None /\ running[w] # 0 /\ sampleOf[running[w]] = None
    /\ rngPos' = rngPos + 1 /\ sampleOf' = [sampleOf EXCEPT ![running[w]] = rngPos + 1]
    /\ UNCHANGED <<pc, i, extra, queue, running, doneJ, resultOf, chance, best, completed>>

Finish(w) ==
    /\ running[w] # None /\ (running[w] = 0 \/ sampleOf[running[w]] # None)
    /\ LET j == running[w] IN
       /\ resultOf' = [resultOf EXCEPT ![j] = IF j = 0 THEN 0 ELSE sampleOf[j]]    \* pure function of the sample
       /\ doneJ' = doneJ \cup {j}
       /\ completed' = Append(completed, j)
    /\ running' = [running EXCEPT ![w] = None]
    /\ UNCHANGED <<pc, i, extra, rngPos, sampleOf, queue, chance, best>>

Next == \/ SubmitBest
        \/ Draw("draw1", "await_best", N) \/ AwaitBest \/ Await("await1", "decide", 1, N) \/ Decide
        \/ Draw("draw2", "await2", N + extra) \/ Await("await2", "return", N + 1, N + extra)
        \/ \E w \in Workers : Start(w) \/ Finish(w) \/ WDraw(w)
Spec == Init /\ [][Next]_gvars /\ WF_gvars(Next)

(* ------------------------------ properties ------------------------------ *)
Returned == pc = "return"
ScheduleFree == Returned => chance = [k \in 1..(N + extra) |-> k]      \* the result is a function of the seed alone
CountOK == Returned => Len(chance) = N + extra /\ rngPos = N + extra   \* exactly max(n, required) samples drawn and aligned
NoExtraWithoutPrecision == ~HasPrecision => rngPos <= N
BestIsInput == Returned => best = 0
CollectedOnlyDone == \A k \in 1..Len(chance) : chance[k] # None
Terminates == <>Returned
\* refinement: the concurrent run implements the atomic, schedule-free GammaAtomic (safety and liveness)
Atomic == INSTANCE GammaAtomic WITH st <- (IF pc = "return" THEN "returned" ELSE "running"),
                                    result <- (IF pc = "return" THEN chance ELSE <<>>)
ImplementsAtomic == Atomic!Spec
\* always TRUE; used as CONSTRAINT so that TLC prints the job order of every finished run
EmitC == (Returned /\ EmitSchedules) => PrintT(ToJson([completed |-> completed, extra |-> extra]))
=============================================================================
