----------------------------- MODULE TraceAlign -----------------------------
(***************************************************************************)
(* Code -> spec for the alignment computations.  Every record of the trace *)
(* file is one call of get_best_alignment / get_best_soft_alignment /      *)
(* get_fast_alignment (or a hand-built alignment) on a real continuum,     *)
(* with the pairwise dissimilarity table observed through the compiled     *)
(* form.  TLC judges each record with the operators of Align.tla:          *)
(*   - structure (partition / cover, slots, no foreign unit, >= 1 unit),   *)
(*   - the disorders the library reports against the definition,           *)
(*   - the candidate list against the n*delta_empty cut,                   *)
(*   - OPTIMALITY, as a reachability question: the state space below is a  *)
(*     branch-and-bound search over ALL alignments (not only candidates)   *)
(*     that only follows prefixes cheaper than the claimed alignment;      *)
(*     reaching a complete alignment refutes the claim.                    *)
(* Verdicts are printed, one JSON line per failing clause.                 *)
(***************************************************************************)
EXTENDS Align, Json, IOUtils, SequencesExt

File == JsonDeserialize(IOEnv.TRACE_FILE)
Recs == File.recs

VARIABLES tid, covered, cost
savars == <<tid, covered, cost>>

R == Recs[tid]
I == [n |-> R.n, sizes |-> R.sizes, D |-> R.D, de |-> R.de]
NT == Len(R.tuples)

(* ---- the logged alignment: each unitary alignment is a list of slots <<annotator rank, unit index>> ---- *)
(* unit index >= 0: that unit of the continuum; -1: the empty unit; -2: a unit that is not in the continuum *)
Slot(k, a) == LET hits == {s \in 1..Len(R.tuples[k]) : R.tuples[k][s][1] = a}
              IN IF hits = {} THEN -1 ELSE R.tuples[k][CHOOSE s \in hits : TRUE][2]
Tup(k) == [a \in Ann(I) |-> IF Slot(k, a) < 0 \/ Slot(k, a) >= I.sizes[a] THEN I.sizes[a] ELSE Slot(k, a)]
Al == [k \in 1..NT |-> Tup(k)]

Abs(x) == IF x < 0 THEN -x ELSE x
Near(x, y, tol) == Abs(x - y) <= tol

ObsSlots == \A k \in 1..NT : /\ Len(R.tuples[k]) = I.n                                  \* one slot per annotator
                             /\ {R.tuples[k][s][1] : s \in 1..Len(R.tuples[k])} = Ann(I)
ObsNoForeign == \A k \in 1..NT : \A s \in 1..Len(R.tuples[k]) :
                    R.tuples[k][s][2] >= -1 /\ (R.tuples[k][s][1] \in Ann(I) => R.tuples[k][s][2] < I.sizes[R.tuples[k][s][1]])
ObsHasRealUnit == \A k \in 1..NT : \E s \in 1..Len(R.tuples[k]) : R.tuples[k][s][2] >= 0
ObsPartition == R.mode = "partition" => \A u \in AllUnits(I) : Occurrences(I, Al, u) = 1
ObsCover == \A u \in AllUnits(I) : Occurrences(I, Al, u) >= 1

(* ---- reported disorders against the definition (sums over pairs; scaled integers) ---- *)
ObsUnitary == \A k \in 1..NT : R.ud[k] >= 0 => Near(R.ud[k], SumCost(I, Tup(k)), R.tol)          \* carried per unitary alignment
ObsTotal == R.tot >= 0 => Near(R.tot, AlCost(I, Al), R.tol * NT)                                 \* carried total * mean units * C(n,2)
ObsRecompute == /\ \A k \in 1..NT : R.rud[k] >= 0 => Near(R.rud[k], SumCost(I, Tup(k)), R.tol)   \* compute_disorder again
                /\ R.rtot >= 0 => Near(R.rtot, AlCost(I, Al), R.tol * NT)
\* UnitaryAlignment.compute_disorder, on unitary alignments without / with an empty slot
HasEmpty(k) == \E a \in Ann(I) : IsNull(I, Tup(k), a)
RealIn(k) == Cardinality({a \in Ann(I) : ~IsNull(I, Tup(k), a)})
ObsSingle == \A k \in 1..NT : (R.sud[k] >= 0 /\ ~HasEmpty(k)) => Near(R.sud[k], SumCost(I, Tup(k)), R.tol)
ObsSingleWithEmpty == \A k \in 1..NT : (R.sud[k] >= 0 /\ HasEmpty(k)) => Near(R.sud[k], SumCost(I, Tup(k)), R.tol)
\* the recorded known finding has one specific wrong value (definition / (real units / n)); anything else is new
ObsSingleOtherThanKnown ==
    \A k \in 1..NT : (R.sud[k] >= 0 /\ HasEmpty(k) /\ ~Near(R.sud[k], SumCost(I, Tup(k)), R.tol))
                         => Near(R.sud[k] * RealIn(k), SumCost(I, Tup(k)) * I.n, R.tol * I.n)
\* a partition is a cover: the soft optimum never exceeds the partition optimum of the same instance
ObsSoftLE == (R.mode = "soft" /\ R.bestcost >= 0) => AlCost(I, Al) <= R.bestcost + R.tol * (NT + 1)
ObsOrderFree == \A k \in 1..NT : R.pud[k] >= 0 => Near(R.pud[k], SumCost(I, Tup(k)), R.tol)      \* slots listed in another order

(* ---- candidates (valid_alignments) against the cut ---- *)
CandTuple(c) == [a \in Ann(I) |-> c[1][a]]
Band == R.band
\* Band = 0: the table is exact (dyadic values): a tuple exactly ON the cut must be there ("at most n * delta_empty");
\* Band > 0: the table was observed through single-precision values, tuples within the band of the cut are not judged
MustHave == {t \in Tuples(I) \ {AllNull(I)} : SumCost(I, t) <= Crit(I, "none") - (IF Band = 0 THEN 0 ELSE Band + 1)}
MayHave == IF Band = 0 THEN {} ELSE {t \in Tuples(I) \ {AllNull(I)} : Abs(SumCost(I, t) - Crit(I, "none")) <= Band}
ObsCands == R.hascands = 1 =>
    LET logged == {CandTuple(R.cands[k]) : k \in 1..Len(R.cands)} IN
    /\ Cardinality(logged) = Len(R.cands)                                   \* exactly once each
    /\ MustHave \subseteq logged
    /\ logged \subseteq (MustHave \cup MayHave)                             \* never the all-empty one, nothing above the cut
    /\ \A k \in 1..Len(R.cands) : Near(R.cands[k][2], SumCost(I, CandTuple(R.cands[k])), R.tol)

\* fast alignment: never cheaper than the best alignment; equal when the window covers everything
ObsFastGE == (R.mode = "partition" /\ R.fastbest >= 0) => AlCost(I, Al) >= R.fastbest - R.tol * (NT + 1)
ObsFastEq == (R.mode = "partition" /\ R.fastbest >= 0 /\ R.covering = 1) => Near(AlCost(I, Al), R.fastbest, R.tol * (NT + 1))

\* the same instance aligned under the other MIP back-end has the same optimal cost (also for instances too large for the search)
ObsBackendsAgree == R.othercost >= 0 => Near(AlCost(I, Al), R.othercost, R.tol * (NT + 1))

ObsBackend == R.backend = R.wantbackend
ObsModelOpt == R.modelopt >= 0 => Near(AlCost(I, Al), R.modelopt, R.tol * NT)      \* TLC's own optimum for a TLC-generated instance

(* ---- optimality by exhaustive search ---- *)
Claimed == AlCost(I, Al)
Slack == R.tol * (NT + 1)

Init == tid \in 1..Len(Recs) /\ covered = {} /\ cost = 0

Pick ==
    /\ R.search = 1
    /\ LET rem == AllUnits(I) \ covered IN
       /\ rem # {}
       /\ LET u == First(rem) IN
          \E t \in Tuples(I) :
             /\ t[u[1]] = u[2]
             /\ R.mode = "partition" => \A a \in Ann(I) : a # u[1] => (IsNull(I, t, a) \/ <<a, t[a]>> \in rem)
             /\ cost + SumCost(I, t) < Claimed - Slack
             /\ cost' = cost + SumCost(I, t)
             /\ covered' = covered \cup TUnits(I, t)
    /\ tid' = tid

Spec == Init /\ [][Pick]_savars

NoCheaper == covered # AllUnits(I) \/ AllUnits(I) = {}

Judge(name, ok) == ok \/ PrintT(ToJson([verdict |-> name, tid |-> tid]))

Verdicts ==
    /\ covered = {} =>
        /\ PrintT(ToJson([done |-> tid]))
        /\ Judge("ObsSlots", ObsSlots)
        /\ Judge("ObsNoForeign", ObsNoForeign)
        /\ Judge("ObsHasRealUnit", ObsHasRealUnit)
        /\ Judge("ObsPartition", ObsPartition)
        /\ Judge("ObsCover", ObsCover)
        /\ Judge("ObsUnitary", ObsUnitary)
        /\ Judge("ObsTotal", ObsTotal)
        /\ Judge("ObsRecompute", ObsRecompute)
        /\ Judge("ObsSingle", ObsSingle)
        /\ Judge("ObsSingleWithEmpty", ObsSingleWithEmpty)
        /\ Judge("ObsSingleOtherThanKnown", ObsSingleOtherThanKnown)
        /\ Judge("ObsSoftLE", ObsSoftLE)
        /\ Judge("ObsFastGE", ObsFastGE)
        /\ Judge("ObsFastEq", ObsFastEq)
        /\ Judge("ObsOrderFree", ObsOrderFree)
        /\ Judge("ObsCands", ObsCands)
        /\ Judge("ObsBackend", ObsBackend)
        /\ Judge("ObsBackendsAgree", ObsBackendsAgree)
        /\ Judge("ObsModelOpt", ObsModelOpt)
    /\ Judge("NoCheaper", NoCheaper)
=============================================================================
