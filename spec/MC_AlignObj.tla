----------------------------- MODULE MC_AlignObj -----------------------------
(* Exhaustive exploration of the alignment-object life cycle on one small instance:
   2 annotators with 2 and 1 units, two dissimilarities with different tables and delta_empty,
   2 unitary alignments (any tuples, not only partitions), object 1 detached, object 2 attached. *)
EXTENDS AlignObj, Json

CONSTANTS Variant, Computed, Emit

E == << >>
Tab1 == << <<E, << <<1>>, <<3>> >> >>, <<E, E>> >>
Tab2 == << <<E, << <<2>>, <<0>> >> >>, <<E, E>> >>
J0 == [n |-> 2, sizes |-> <<2, 1>>, Ds |-> <<Tab1, Tab2>>, des |-> <<2, 4>>, att |-> <<FALSE, TRUE>>]
Tps == Tuples(ID(J0, 1)) \ {AllNull(ID(J0, 1))}
SetVals == {5}

Init == \E t1 \in Tps, t2 \in Tps, g \in {NoVal, <<7, 2>>} : InitObj(J0, <<t1, t2>>, Computed, g)

\* spec -> code: every transition taken is printed (source state, operation, destination state and expected reply)
EmitEdge(op, args) == Emit => PrintT(ToJson([op |-> op, args |-> args,
                                             src |-> [tuples |-> tuples, ud |-> ud, tot |-> tot],
                                             dst |-> [tuples |-> tuples', ud |-> ud', tot |-> tot', ret |-> ret', out |-> out']]))
DoCompute == \E o \in Objs, d \in 1..2 : Compute(J0, o, d, Variant) /\ EmitEdge("compute", <<o, d>>)
DoReadTot == \E o \in Objs : ReadTot(J0, o) /\ EmitEdge("readtot", <<o>>)
DoReadUd == \E k \in 1..2 : ReadUd(J0, k) /\ EmitEdge("readud", <<k>>)
DoSetUd == \E k \in 1..2, v \in SetVals : SetUd(J0, k, v) /\ EmitEdge("setud", <<k, v>>)
DoSetTuple == \E k \in 1..2, t \in Tps : SetTuple(J0, k, t, Variant) /\ EmitEdge("settuple", <<k, t[1], t[2]>>)
DoUCompute == \E k \in 1..2, d \in 1..2 : UCompute(J0, k, d) /\ EmitEdge("ucompute", <<k, d>>)
Next == DoCompute \/ DoReadTot \/ DoReadUd \/ DoSetUd \/ DoSetTuple \/ DoUCompute
Spec == Init /\ [][Next]_aovars

Fresh == FreshAgree(J0)
LazyTotal == [][LazyTotalStep(J0)]_aovars
NoStaleTotal == TotalsAlwaysAgree(J0)
TypeOK == /\ \A k \in 1..NTu : tuples[k] \in Tps /\ ud[k] \in Int
          /\ \A o \in Objs : tot[o] \in Int \X Int
          /\ out \in {"ok", "raise"}
=============================================================================
