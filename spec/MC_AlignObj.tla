----------------------------- MODULE MC_AlignObj -----------------------------
(* Exhaustive exploration of the alignment-object life cycle on one small instance:
   2 annotators with 2 and 1 units, two dissimilarities with different tables and delta_empty,
   2 unitary alignments (any tuples, not only partitions), object 1 detached, object 2 attached. *)
EXTENDS AlignObj

CONSTANTS Variant, Computed

E == << >>
Tab1 == << <<E, << <<1>>, <<3>> >> >>, <<E, E>> >>
Tab2 == << <<E, << <<2>>, <<0>> >> >>, <<E, E>> >>
J0 == [n |-> 2, sizes |-> <<2, 1>>, Ds |-> <<Tab1, Tab2>>, des |-> <<2, 4>>, att |-> <<FALSE, TRUE>>]
Tps == Tuples(ID(J0, 1)) \ {AllNull(ID(J0, 1))}
SetVals == {5}

Init == \E t1 \in Tps, t2 \in Tps, g \in {NoVal, <<7, 2>>} : InitObj(J0, <<t1, t2>>, Computed, g)

DoCompute == \E o \in Objs, d \in 1..2 : Compute(J0, o, d, Variant)
DoReadTot == \E o \in Objs : ReadTot(J0, o)
DoReadUd == \E k \in 1..2 : ReadUd(J0, k)
DoSetUd == \E k \in 1..2, v \in SetVals : SetUd(J0, k, v)
DoSetTuple == \E k \in 1..2, t \in Tps : SetTuple(J0, k, t, Variant)
DoUCompute == \E k \in 1..2, d \in 1..2 : UCompute(J0, k, d)
Next == DoCompute \/ DoReadTot \/ DoReadUd \/ DoSetUd \/ DoSetTuple \/ DoUCompute
Spec == Init /\ [][Next]_aovars

Fresh == FreshAgree(J0)
LazyTotal == [][LazyTotalStep(J0)]_aovars
NoStaleTotal == TotalsAlwaysAgree(J0)
TypeOK == /\ \A k \in 1..NTu : tuples[k] \in Tps /\ ud[k] \in Int
          /\ \A o \in Objs : tot[o] \in Int \X Int
          /\ out \in {"ok", "raise"}
=============================================================================
