----------------------------- MODULE TraceGammaCat -----------------------------
(* Code -> spec for gamma-cat / gamma-k.                                            *)
(*  kind "disorder": a real Alignment object (best, soft or hand-built) on the grid, *)
(*     with the value gamma_k_disorder returned (fixed point 1e-6); TLC computes the *)
(*     weighted mean of GammaCat.tla exactly and compares (big-number products).     *)
(*  kind "combine": the per-alignment categorical disorders of a gamma run and the   *)
(*     gamma-cat / gamma-k value reported.                                           *)
(*  kind "refuse": what happened with a dissimilarity that is not the combined one.  *)
EXTENDS GammaCat, Json, IOUtils, SequencesExt, BigNat

File == JsonDeserialize(IOEnv.TRACE_FILE)
Recs == File.recs
VARIABLE tid
R == Recs[tid]
FX == 1000000
A0 == [alpha |-> R.alpha, ad |-> R.ad, de |-> R.de, cattype |-> R.cattype, M |-> R.M]

\* |v/FX - N/(4 D)| <= tol   <=>   |4 v D - N FX| <= 4 tol D FX      (all products as big numbers)
NearRatio(v, N0, D0, tolfx) ==
    LET lhs == Mul(FromInt(4 * v), FromInt(D0))
        rhs == Mul(FromInt(N0), FromInt(FX))
        slack == Mul(FromInt(4 * tolfx), FromInt(D0))       \* tolfx is in 1e-6 units, like v
    IN Geq(Add(rhs, slack), lhs) /\ Geq(Add(lhs, slack), rhs)

IsDis == R.kind = "disorder"
N1 == Num(A0, R.tuples, R.category)
D1 == Den(A0, R.tuples, R.category)
\* the three exits of the library: no real pair counted (named deviation: 1 if nothing matched at all, else 0 - not judged),
\* zero numerator, or the weighted mean
ObsDisorder == (IsDis /\ AnyRealPair(R.tuples, R.category)) =>
                   IF N1 = 0 THEN R.obs = 0 ELSE NearRatio(R.obs, N1, D1, 3 + R.obs \div 50000)
ObsZeroWhenAgree == (IsDis /\ Agree(R.tuples) /\ AnyRealPair(R.tuples, R.category)) => R.obs = 0
ObsBounded == IsDis => R.obs >= 0 /\ R.obs <= R.de * FX + 3

IsComb == R.kind = "combine"
Mean == FoldSet(LAMBDA k, acc : acc + R.chance[k], 0, 1..Len(R.chance))      \* times Len
Abs2(x) == IF x < 0 THEN -x ELSE x
\* value = 1 if observed = 0; (gamma-cat only) 0 if expected = 0; else 1 - observed/mean(chance)
ObsCombine == IsComb =>
    IF R.observed = 0 THEN R.value = FX
    ELSE IF Mean = 0 THEN (R.which = "cat" => R.value = 0)
    ELSE \* (1 - value) * mean = observed     (fixed point 1e-6, values kept below 2^31 by working in 1e-3 steps)
         Abs2(((FX - R.value) \div 1000) * (Mean \div 1000) - (R.observed \div 1000) * Len(R.chance) * 1000)
             <= 2000 * Len(R.chance) + Abs2(FX - R.value) \div 500 + Mean \div 500
ObsLeOne == IsComb => R.value <= FX
ObsRefused == R.kind = "refuse" => R.raised # "none"      \* refused = the call raises (the statement fixes no exception class)

Init == tid \in 1..Len(Recs)
Next == UNCHANGED tid
Spec == Init /\ [][Next]_tid
Judge(name, ok) == ok \/ PrintT(ToJson([verdict |-> name, tid |-> tid]))
Verdicts ==
    /\ PrintT(ToJson([done |-> tid]))
    /\ Judge("ObsDisorder", ObsDisorder)
    /\ Judge("ObsZeroWhenAgree", ObsZeroWhenAgree)
    /\ Judge("ObsBounded", ObsBounded)
    /\ Judge("ObsCombine", ObsCombine)
    /\ Judge("ObsLeOne", ObsLeOne)
    /\ Judge("ObsRefused", ObsRefused)
=============================================================================
