---------------------------- MODULE TraceInvariance ----------------------------
(* Code -> spec for C09: pairs of runs of the real code on a continuum and on its      *)
(* transform.  Transform(kind) leaves the abstract alignment problem unchanged         *)
(* (annotator renaming / permutation, time translation, time scaling, category         *)
(* renaming) or multiplies every cost by c (delta_empty * c in all components), see    *)
(* PermInvariant / DeltaEmptyLinear in MC_Align and ShiftInvariant / ScaleInvariant /  *)
(* LinearInDE in MC_Dissim.  Values are fixed point 1e-6.                               *)
EXTENDS Integers, Sequences, TLC, Json, IOUtils
File == JsonDeserialize(IOEnv.TRACE_FILE)
Recs == File.recs
VARIABLE tid
R == Recs[tid]
Abs(x) == IF x < 0 THEN -x ELSE x
Tol(x) == 2 + Abs(x) \div 50000                       \* 2e-5 relative: single-precision rounding
Near(x, y) == Abs(x - y) <= Tol(x)
ObsInvariant == R.kind # "delta_empty" => Near(R.other, R.base)
ObsLinear == R.kind = "delta_empty" => Abs(R.other * R.c[2] - R.base * R.c[1]) <= Tol(R.other) * R.c[2] + Tol(R.base) * R.c[1]
ObsGammaSame == R.hasgamma = 1 => Abs(R.gother - R.gbase) <= 40 + Abs(R.gbase) \div 5000
Init == tid \in 1..Len(Recs)
Next == UNCHANGED tid
Spec == Init /\ [][Next]_tid
Judge(name, ok) == ok \/ PrintT(ToJson([verdict |-> name, tid |-> tid]))
Verdicts == /\ PrintT(ToJson([done |-> tid]))
            /\ Judge("ObsInvariant", ObsInvariant)
            /\ Judge("ObsLinear", ObsLinear)
            /\ Judge("ObsGammaSame", ObsGammaSame)
=============================================================================
