------------------------------ MODULE Continuum ------------------------------
(***************************************************************************)
(* The continuum container of pygamma-agreement as a heap of values.       *)
(*                                                                         *)
(* One action per public mutating call of pygamma_agreement.Continuum.     *)
(* Annotators, labels and times are integers: the harness encodes strings  *)
(* and floats by their RANK (Python sort order), so `<` below is the       *)
(* library's documented order.  Label 0 is "no label" (None).              *)
(* A unit is <<annotator, start, end, label>>.                             *)
(*                                                                         *)
(* Where the property statement leaves a set of acceptable results (which  *)
(* categories a copy / merge carries beyond the labels in use) the action  *)
(* is nondeterministic over that set.                                      *)
(***************************************************************************)
EXTENDS Integers, Sequences, FiniteSets, FiniteSetsExt, TLC, Json

CONSTANTS Obj,        \* object identifiers
          Zero,       \* the encoding of time 0.0 (initial bounds)
          EmitEdges,  \* TRUE: print one JSON line per transition (spec -> code replay)
          Mutant,     \* "none", or the name of a deliberately wrong variant (self-test of the invariants)
          CarryAll    \* TRUE: copies / merges carry every category they may carry (what the library does); used for
                      \* long simulated behaviours that are replayed step by step.  FALSE: any acceptable subset.

VARIABLES heap,       \* Obj -> continuum value or NoObj
          out         \* outcome of the last call: "ok" or "rejected" (the call raised; the statement fixes no exception class)

cvars == <<heap, out>>

NoObj == [absent |-> TRUE]
NoLabel == 0
Inf == 0              \* best_window_size = infinity

Empty == [ann |-> {}, units |-> {}, cats |-> {}, lo |-> Zero, hi |-> Zero, bws |-> Inf]

Live == {o \in Obj : heap[o] # NoObj}

Min2(a, b) == IF a < b THEN a ELSE b
Max2(a, b) == IF a > b THEN a ELSE b

(* ---- the documented strict total order on units of one annotator ---- *)
ULess(u, v) == \/ u[2] < v[2]
               \/ u[2] = v[2] /\ u[3] < v[3]
               \/ u[2] = v[2] /\ u[3] = v[3] /\ u[4] < v[4]      \* NoLabel = 0 sorts first

UnitsOf(c, a) == {u \in c.units : u[1] = a}
LabelsInUse(c) == {u[4] : u \in c.units} \ {NoLabel}

(* the sorted view of one annotator's units *)
SortedUnits(c, a) ==
    LET S == UnitsOf(c, a) IN
    CHOOSE q \in [1..Cardinality(S) -> S] :
        \A i, j \in 1..Cardinality(S) : i < j => ULess(q[i], q[j])

AddTo(c, a, s, e, l) ==
    [c EXCEPT !.ann = @ \cup {a},
              !.units = @ \cup {<<a, s, e, l>>},
              !.cats = IF l = NoLabel THEN @ ELSE @ \cup {l},
              !.lo = Min2(@, s),
              !.hi = Max2(@, e)]

RECURSIVE AddAll(_, _)
AddAll(c, us) == IF us = {} THEN c
                 ELSE LET u == CHOOSE x \in us : TRUE
                      IN AddAll(AddTo(c, u[1], u[2], u[3], u[4]), us \ {u})

(* merge = every annotator of d registered, then every unit of d added *)
MergeLower(c, d) == AddAll([c EXCEPT !.ann = @ \cup d.ann], d.units)

ResetVal(c) ==
    IF c.units = {} THEN [c EXCEPT !.lo = Zero, !.hi = Zero]
    ELSE IF Mutant = "reset_last_in_order"      \* the library before its fix: end of the last unit in sort order
    THEN [c EXCEPT !.lo = Min({u[2] : u \in c.units}),
                   !.hi = Max({(CHOOSE u \in UnitsOf(c, a) : \A v \in UnitsOf(c, a) : v = u \/ ULess(v, u))[3] :
                                 a \in {u[1] : u \in c.units}})]
    ELSE [c EXCEPT !.lo = Min({u[2] : u \in c.units}),
                   !.hi = Max({u[3] : u \in c.units})]

Eq(c, d) == c.ann = d.ann /\ c.units = d.units

CatChoices(S) == IF CarryAll THEN {S} ELSE SUBSET S

Emit(op, args) ==
    EmitEdges => PrintT(ToJson([src |-> heap, op |-> op, args |-> args, dst |-> heap', out |-> out']))

(* ------------------------------ actions ------------------------------ *)

New(o) ==
    /\ heap[o] = NoObj
    /\ heap' = [heap EXCEPT ![o] = Empty]
    /\ out' = "ok"
    /\ Emit("new", <<o>>)

Add(o, a, s, e, l) ==
    /\ o \in Live
    /\ IF s >= e /\ Mutant # "add_accepts_empty"
         THEN heap' = heap /\ out' = "rejected"            \* zero-length (empty) segments always rejected (whatever the exception class)
         ELSE heap' = [heap EXCEPT ![o] = AddTo(@, a, s, e, l)] /\ out' = "ok"
    /\ Emit("add", <<o, a, s, e, l>>)

(* add_timeline / add_annotation: a whole pyannote object = one add per (non-empty) segment; items = set of <<s, e, label>> *)
AddMany(op, o, a, items) ==
    /\ o \in Live
    /\ heap' = [heap EXCEPT ![o] = AddAll(@, {<<a, it[1], it[2], it[3]>> : it \in items})]
    /\ out' = "ok"
    /\ Emit(op, <<o, a, items>>)

AddAnnotator(o, a) ==
    /\ o \in Live
    /\ heap' = [heap EXCEPT ![o].ann = @ \cup {a}]
    /\ out' = "ok"
    /\ Emit("add_annotator", <<o, a>>)

Remove(o, a, s, e, l) ==
    /\ o \in Live
    /\ IF <<a, s, e, l>> \in heap[o].units
         THEN /\ heap' = [heap EXCEPT ![o] = IF Mutant = "remove_shrinks_bounds"
                                              THEN ResetVal([@ EXCEPT !.units = @ \ {<<a, s, e, l>>}])
                                              ELSE [@ EXCEPT !.units = @ \ {<<a, s, e, l>>}]]   \* bounds, cats kept
              /\ out' = "ok"
         ELSE heap' = heap /\ out' = "rejected"
    /\ Emit("remove", <<o, a, s, e, l>>)

(* a copy carries annotators, units, bounds, window size; its categories cover the labels *)
(* in use and invent nothing                                                              *)
Copy(o, o2) ==
    /\ o \in Live /\ heap[o2] = NoObj
    /\ \E extra \in CatChoices(heap[o].cats \ LabelsInUse(heap[o])) :
          heap' = [heap EXCEPT ![o2] = [heap[o] EXCEPT !.cats = IF Mutant = "copy_drops_cats" THEN {}
                                                                 ELSE LabelsInUse(heap[o]) \cup extra]]
    /\ out' = "ok"
    /\ Emit("copy", <<o, o2>>)

CopyFlush(o, o2) ==
    /\ o \in Live /\ heap[o2] = NoObj
    /\ heap' = [heap EXCEPT ![o2] = [Empty EXCEPT !.lo = heap[o].lo, !.hi = heap[o].hi, !.bws = heap[o].bws]]
    /\ out' = "ok"
    /\ Emit("copy_flush", <<o, o2>>)

\* merging adds the labels of d's UNITS; whether unused categories of d come along is not fixed by the property:
\* the library does not carry them (CarryAll: exactly the library's behaviour)
MergeResults(c, d) ==
    LET low == MergeLower(c, d)
    IN IF CarryAll THEN {low} ELSE {[low EXCEPT !.cats = @ \cup extra] : extra \in SUBSET (d.cats \ low.cats)}

MergeInPlace(o, o2) ==
    /\ o \in Live /\ o2 \in Live
    /\ \E v \in MergeResults(heap[o], heap[o2]) : heap' = [heap EXCEPT ![o] = v]
    /\ out' = "ok"
    /\ Emit("merge_in_place", <<o, o2>>)

(* out-of-place merge and `+`: a copy of o merged with o2, stored as o3; o and o2 untouched *)
MergeNew(op, o, o2, o3) ==
    /\ o \in Live /\ o2 \in Live /\ heap[o3] = NoObj
    /\ \E extra \in CatChoices(heap[o].cats \ LabelsInUse(heap[o])) :
       \E v \in MergeResults([heap[o] EXCEPT !.cats = LabelsInUse(heap[o]) \cup extra], heap[o2]) :
          heap' = [heap EXCEPT ![o3] = v]
    /\ out' = "ok"
    /\ Emit(op, <<o, o2, o3>>)

ResetBounds(o) ==
    /\ o \in Live
    /\ heap' = [heap EXCEPT ![o] = ResetVal(@)]
    /\ out' = "ok"
    /\ Emit("reset_bounds", <<o>>)

(* a computation (alignment, disorder, gamma, sampler initialisation or draw, corpus        *)
(* generation ...) reads its inputs and changes nothing                                     *)
Compute(kind) ==
    /\ heap' = heap
    /\ out' = "ok"
    /\ Emit(kind, <<>>)

(* documented exception: a fast-mode gamma records the chosen window size on its input *)
FastGamma(o, w) ==
    /\ o \in Live
    /\ heap' = [heap EXCEPT ![o].bws = w]
    /\ out' = "ok"
    /\ Emit("fast_gamma", <<o, w>>)

(* a computation returns a NEW continuum (sample, corpus, window ...): from then on it is  *)
(* an object of its own; v is whatever the computation produced                            *)
Derive(o, v) ==
    /\ heap[o] = NoObj
    /\ heap' = [heap EXCEPT ![o] = v]
    /\ out' = "ok"
    /\ Emit("derive", <<o>>)

Drop(o) ==      \* the program forgets an object (frees a slot of the bounded model)
    /\ o \in Live
    /\ heap' = [heap EXCEPT ![o] = NoObj]
    /\ out' = "ok"
    /\ Emit("drop", <<o>>)

(* --------------------------- state invariants --------------------------- *)

WellFormed(c) ==
    /\ \A u \in c.units : u[1] \in c.ann /\ u[2] < u[3]        \* no zero-length unit, ever
    /\ LabelsInUse(c) \subseteq c.cats                          \* categories cover every label in use
    /\ \A u \in c.units : c.lo <= u[2] /\ u[3] <= c.hi        \* bounds enclose every unit

HeapWellFormed == \A o \in Live : WellFormed(heap[o])
CatsCover == \A o \in Live : LabelsInUse(heap[o]) \subseteq heap[o].cats
BoundsEnclose == \A o \in Live : \A u \in heap[o].units : heap[o].lo <= u[2] /\ u[3] <= heap[o].hi
NoZeroLength == \A o \in Live : \A u \in heap[o].units : u[2] < u[3]
UnitsHaveAnnotator == \A o \in Live : \A u \in heap[o].units : u[1] \in heap[o].ann
EqIsEquivalence ==
    \A o1, o2, o3 \in Live :
        /\ Eq(heap[o1], heap[o1])
        /\ Eq(heap[o1], heap[o2]) => Eq(heap[o2], heap[o1])
        /\ (Eq(heap[o1], heap[o2]) /\ Eq(heap[o2], heap[o3])) => Eq(heap[o1], heap[o3])
SortedViewExists ==      \* ULess is a strict total order on every annotator's units
    \A o \in Live : \A a \in heap[o].ann :
        LET S == UnitsOf(heap[o], a) IN
        \A u, v \in S : /\ ~ULess(u, u)
                        /\ (u # v) => (ULess(u, v) \/ ULess(v, u))
                        /\ ~(ULess(u, v) /\ ULess(v, u))
=============================================================================
