---------------------------------- MODULE Cli ----------------------------------
(***************************************************************************)
(* The command-line tool as a decision table: options  |->  the effective   *)
(* configuration of the API calls it must be equivalent to, and the output  *)
(* contract (same numbers printed, in CSV, in JSON; one entry per file).    *)
(* An option value "default" means the option is not given.                 *)
(***************************************************************************)
EXTENDS Integers, Sequences, FiniteSets, TLC, Json

CONSTANTS Variant, Emit      \* Variant: "none" | "numerical_ignored" (the tool before its fix)

DVals == {"default", "absolute", "numerical", "levenshtein"}
OutVals == {"print", "csv", "json"}
Opts == [d : DVals, out : OutVals, c : BOOLEAN, k : BOOLEAN,
         a : {"default", "3", "0"}, b : {"default", "2", "0"}, e : {"default", "2", "0.5"},
         m : BOOLEAN, p : {"default", "0.3"}, n : {"default", "4"}, s : {"default", ";"},
         f : {"csv", "rttm"}, files : {1, 2}, seed : {"0", "4772"}]

CatClass(d) == CASE d \in {"default", "absolute"} -> "AbsoluteCategoricalDissimilarity"
                 [] d = "numerical" -> IF Variant = "numerical_ignored" THEN "AbsoluteCategoricalDissimilarity"
                                       ELSE "NumericalCategoricalDissimilarity"
                 [] d = "levenshtein" -> "LevenshteinCategoricalDissimilarity"
Or(v, dflt) == IF v = "default" THEN dflt ELSE v
Effective(o) == [dissim |-> "CombinedCategoricalDissimilarity",
                 cat |-> CatClass(o.d),
                 alpha |-> Or(o.a, "1"), beta |-> Or(o.b, "1"), delta_empty |-> Or(o.e, "1"),
                 sampler |-> IF o.m THEN "ShuffleContinuumSampler" ELSE "StatisticalContinuumSampler",
                 precision |-> Or(o.p, "0.05"), n_samples |-> Or(o.n, "30"),
                 fast |-> TRUE, soft |-> FALSE, ground_truth |-> "all",
                 delimiter |-> Or(o.s, ","), format |-> o.f, seed |-> o.seed,
                 reports |-> <<"gamma">> \o (IF o.c THEN <<"gamma-cat">> ELSE <<>>) \o (IF o.k THEN <<"gamma-k">> ELSE <<>>),
                 entries |-> o.files, out |-> o.out]

VARIABLE o
Init == o \in Opts
Next == UNCHANGED o
Spec == Init /\ [][Next]_o
\* each categorical-dissimilarity choice takes effect
DChoiceTakesEffect == \A d1, d2 \in DVals \ {"default"} : d1 # d2 => CatClass(d1) # CatClass(d2)
\* every option changes exactly the field it names
OptionEffects ==
    /\ Effective([o EXCEPT !.a = "3"]).alpha # Effective([o EXCEPT !.a = "default"]).alpha
    /\ Effective([o EXCEPT !.b = "2"]).beta # Effective([o EXCEPT !.b = "default"]).beta
    /\ Effective([o EXCEPT !.e = "2"]).delta_empty # Effective([o EXCEPT !.e = "0.5"]).delta_empty
    /\ Effective([o EXCEPT !.m = TRUE]).sampler # Effective([o EXCEPT !.m = FALSE]).sampler
    /\ Effective([o EXCEPT !.p = "0.3"]).precision # Effective([o EXCEPT !.p = "default"]).precision
    /\ Effective([o EXCEPT !.n = "4"]).n_samples # Effective([o EXCEPT !.n = "default"]).n_samples
EmitCase == Emit => PrintT(ToJson([opts |-> o, eff |-> Effective(o)]))
=============================================================================
