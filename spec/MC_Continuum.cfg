SPECIFICATION Spec
CONSTANTS
  Obj = {1, 2}
  Zero = 0
  EmitEdges = FALSE
  Mutant = "none"
  CarryAll = FALSE
  Annot = {1, 2}
  Times = {0, 1, 2}
  Labels = {0, 1, 2}
  MaxUnits = 3
  MaxDepth = 5
  WithMany = TRUE
CONSTRAINT Bound
INVARIANT HeapWellFormed
INVARIANT CatsCover
INVARIANT BoundsEnclose
INVARIANT NoZeroLength
INVARIANT UnitsHaveAnnotator
INVARIANT EqIsEquivalence
INVARIANT SortedViewExists
PROPERTY RejectedIsNoOp
PROPERTY OneObjectPerCall
PROPERTY BoundsMonotone
INVARIANT ResetExact
