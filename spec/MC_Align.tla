------------------------------ MODULE MC_Align ------------------------------
(* Bounded universes of alignment instances: every table of pairwise         *)
(* dissimilarities over DVals.  TLC checks the theorems the library relies   *)
(* on (pruning is safe, soft <= partition, both back-end formulations have   *)
(* the same feasible set) and prints every instance with its candidates and  *)
(* optima so that the real code can be run on it (spec -> code).             *)
EXTENDS Align, Json, IOUtils, Randomization, SequencesExt

CONSTANTS NA, MaxU, DVals, DE, Variant, EmitInstances, Sample,  \* Sample = 0: all instances, else that many random ones
          CheckInvariance   \* TRUE: also solve the annotator-reversed and the doubled instance (C09)

VARIABLES inst, phase, result
avars == <<inst, phase, result>>

AnnS == 1..NA
CrossPairs(sz) == {q \in (AnnS \X (0..MaxU)) \X (AnnS \X (0..MaxU)) :
                      q[1][1] < q[2][1] /\ q[1][2] < sz[q[1][1]] /\ q[2][2] < sz[q[2][1]]}
MkInst(sz, f) == [n |-> NA, sizes |-> sz, de |-> DE,
                  D |-> [a \in AnnS |-> [b \in AnnS |->
                           IF a < b THEN [i \in 1..sz[a] |-> [j \in 1..sz[b] |-> f[<<<<a, i - 1>>, <<b, j - 1>>>>]]]
                           ELSE <<>>]]]
Sizes == {sz \in [AnnS -> 0..MaxU] : \E a \in AnnS : sz[a] > 0}
SoftMax == 6
\* (an operator with a parameter: TLC evaluates constant-level definitions WITHOUT parameters eagerly at start-up, which for the
\* sampled universes - 4^9 tables per size vector - never finished)
InstancesOf(szs) == UNION {{MkInst(sz, f) : f \in [CrossPairs(sz) -> DVals]} : sz \in szs}

\* Sample = 0: every instance of the universe; otherwise the instances are drawn by the harness (Sample random tables per size
\* vector, from the harness's seed) and handed over as a file: RandomSubset over a set of 4^9 functions does not finish in TLC
FileInstsOf(path) == LET f == JsonDeserialize(path) IN {f.insts[k] : k \in 1..Len(f.insts)}
Init == /\ inst \in (IF Sample = 0 THEN InstancesOf(Sizes) ELSE FileInstsOf(IOEnv.TRACE_FILE))
        /\ phase = "start" /\ result = <<>>

Solve ==
    /\ phase = "start"
    /\ LET cs == Cands(inst, Variant)
           all == Tuples(inst) \ {AllNull(inst)}
       IN result' = [ncands |-> Cardinality(cs),
                     pruned |-> MinPart(inst, AllUnits(inst), cs),
                     full   |-> MinPart(inst, AllUnits(inst), all),
                     \* covers may re-use units: the search is exponential in the number of units; beyond SoftMax units
                     \* the cover optima are not computed (-1) and the soft lemmas not checked on that instance
                     softp  |-> IF NumUnits(inst) <= SoftMax THEN MinCover(inst, AllUnits(inst), cs) ELSE -1,
                     softf  |-> IF NumUnits(inst) <= SoftMax THEN MinCover(inst, AllUnits(inst), all) ELSE -1]
    /\ phase' = "done"
    /\ inst' = inst
    /\ EmitInstances => PrintT(ToJson([inst |-> inst, result |-> result',
                                       cands |-> SetToSeq({<<t, SumCost(inst, t)>> : t \in Cands(inst, Variant)})]))

\* the same problem with the annotators listed in reverse order / with every dissimilarity and delta_empty doubled
Rev(I) == [n |-> I.n, de |-> I.de,
           sizes |-> [a \in Ann(I) |-> I.sizes[I.n + 1 - a]],
           D |-> [a \in Ann(I) |-> [b \in Ann(I) |->
                    IF a < b THEN [i \in 1..I.sizes[I.n + 1 - a] |-> [j \in 1..I.sizes[I.n + 1 - b] |->
                                      I.D[I.n + 1 - b][I.n + 1 - a][j][i]]]
                    ELSE <<>>]]]
Twice(I) == [n |-> I.n, de |-> 2 * I.de, sizes |-> I.sizes,
             D |-> [a \in Ann(I) |-> [b \in Ann(I) |->
                      IF a < b THEN [i \in 1..I.sizes[a] |-> [j \in 1..I.sizes[b] |-> 2 * I.D[a][b][i][j]]] ELSE <<>>]]]
OptPart(I) == MinPart(I, AllUnits(I), Cands(I, "none"))
PermInvariant == (CheckInvariance /\ phase = "done") => OptPart(Rev(inst)) = result.pruned      \* renaming / permuting annotators
DeltaEmptyLinear == (CheckInvariance /\ phase = "done") => OptPart(Twice(inst)) = 2 * result.pruned   \* delta_empty * c everywhere

Next == Solve
Spec == Init /\ [][Next]_avars

Done == phase = "done"
Feasible      == Done => result.pruned < Big                  \* the candidates always admit a partition
PruneSafe     == Done => result.pruned = result.full          \* discarding tuples above n*delta_empty never changes the minimum
SoftPruneSafe == Done => result.softp = result.softf
SoftLE        == (Done /\ result.softp >= 0) => result.softp <= result.pruned        \* a partition is a cover
AllNullPasses == SumCost(inst, AllNull(inst)) <= Crit(inst, Variant)   \* so the enumerator's last entry is always the all-empty tuple
SingletonsAreCands ==                                         \* every unit alone is a candidate (cost <= C(n,2)*de)
    \A u \in AllUnits(inst) :
        [a \in AnnS |-> IF a = u[1] THEN u[2] ELSE inst.sizes[a]] \in Cands(inst, "none")
BackendFree ==                                                \* CBC's  A x = 1  and GLPK's  1 <= A x <= 1
    (Done /\ Cardinality(Cands(inst, Variant)) <= 8) =>
        \A chosen \in SUBSET Cands(inst, Variant) : FeasibleCBC(inst, chosen) = FeasibleGLPK(inst, chosen)
=============================================================================
