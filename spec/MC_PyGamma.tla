----------------------------- MODULE MC_PyGamma -----------------------------
(* Bounded universes for PyGamma.tla: pools of alignment instances with 2 or 3 annotators, *)
(* at most 2 units each, pairwise dissimilarities over Vals, delta_empty = DE.              *)
(* The sub-pools are carved deterministically (no RandomSubset: Pool is evaluated at every  *)
(* draw and must be the same set each time).                                                *)
EXTENDS PyGamma

DE == 2
Vals == {0, 1, 3, 5}

I2(sz, m) == [n |-> 2, sizes |-> sz, de |-> DE,
              D |-> [a \in 1..2 |-> [b \in 1..2 |-> IF a < b THEN m ELSE <<>>]]]
All2(sz) == {I2(sz, m) : m \in [1..sz[1] -> [1..sz[2] -> Vals]]}
I3(sz, m12, m13, m23) ==
    [n |-> 3, sizes |-> sz, de |-> DE,
     D |-> [a \in 1..3 |-> [b \in 1..3 |-> IF a = 1 /\ b = 2 THEN m12 ELSE IF a = 1 /\ b = 3 THEN m13
                                           ELSE IF a = 2 /\ b = 3 THEN m23 ELSE <<>>]]]
Mat(r, c) == [1..r -> [1..c -> Vals]]
All3(sz) == {I3(sz, m12, m13, m23) : m12 \in Mat(sz[1], sz[2]), m13 \in Mat(sz[1], sz[3]), m23 \in Mat(sz[2], sz[3])}

\* a cheap deterministic fingerprint to thin the big families
MSum(m) == LET RECURSIVE Rw(_) Rw(r) == IF r = 0 THEN 0 ELSE
                   (LET RECURSIVE Cc(_) Cc(c) == IF c = 0 THEN 0 ELSE (r * 3 + c) * m[r][c] + Cc(c - 1) IN Cc(Len(m[r]))) + Rw(r - 1)
           IN Rw(Len(m))
FP(I) == IF I.n = 2 THEN MSum(I.D[1][2]) ELSE MSum(I.D[1][2]) + 2 * MSum(I.D[1][3]) + 5 * MSum(I.D[2][3])
Thin(SS, k, r) == {I \in SS : FP(I) % k = r}

P11 == All2(<<1, 1>>)
P21 == All2(<<2, 1>>)
P12 == All2(<<1, 2>>)
P22 == All2(<<2, 2>>)
P111 == All3(<<1, 1, 1>>)
P211 == All3(<<2, 1, 1>>)

TinyRefs == {I \in P11 : I.D[1][2][1][1] \in {0, 3}}
TinyPool == {I \in P11 : I.D[1][2][1][1] \in {1, 5}} \cup Thin(P21, 16, 7)
QuickRefs == Thin(P11, 2, 0) \cup Thin(P21, 8, 3) \cup Thin(P22, 64, 9)
QuickPool == Thin(P11, 3, 1) \cup Thin(P21, 8, 5) \cup Thin(P22, 128, 17)
MoreRefs == P11 \cup Thin(P21, 4, 1) \cup Thin(P22, 32, 9) \cup Thin(P111, 16, 3) \cup Thin(P211, 512, 77)
MorePool == P11 \cup Thin(P12, 8, 5) \cup Thin(P22, 64, 17) \cup Thin(P111, 32, 11)

MidPool == QuickPool \cup Thin(P111, 32, 11)

Half == <<1, 2>>
Quarter == <<1, 4>>
=============================================================================
