--------------------------- MODULE TraceStatSampler ---------------------------
(* Code -> spec for StatisticalContinuumSampler: the random draws the sampler really  *)
(* made (harness-side probes on np.random.normal / np.random.choice: arguments and    *)
(* result) are fed, in order, to the actions of StatSampler.tla; the continuum the    *)
(* sampler returned must be the one the spec builds from those draws, each draw must  *)
(* have been requested from the law with the parameters the spec expects for its kind *)
(* (supplied, or measured on an integer-grid reference: exact mean and variance).     *)
EXTENDS StatSampler, Json, IOUtils, SequencesExt

File == JsonDeserialize(IOEnv.TRACE_FILE)
Recs == File.recs

VARIABLES tid, l, bad
tsvars == <<stvars, tid, l, bad>>
R == Recs[tid]
E == R.draws[l]

TInit == Init /\ tid \in 1..Len(Recs) /\ l = 1 /\ bad = FALSE

Step ==
    /\ l <= Len(R.draws) /\ ~bad /\ pc # "done"
    /\ l' = l + 1 /\ tid' = tid
    /\ IF (pc = "cat") # (E.k = "choice")
         THEN bad' = TRUE /\ UNCHANGED stvars                       \* a draw of the wrong kind at this point
         ELSE /\ bad' = FALSE
              /\ CASE pc = "count" -> DrawCount(E.xt)             \* xt = int(x) * K: the integer part, exactly
                   [] pc = "gap" -> DrawGap(E.x)
                   [] pc = "dur" -> DrawDuration(E.x, E.xn)
                   [] pc = "cat" -> DrawCategory(E.r)
TSpec == TInit /\ [][Step]_tsvars

(* ------------------------------- judging ------------------------------- *)
AtEnd == bad \/ l = Len(R.draws) + 1 \/ pc = "done"
Tolr(k) == 2 + k
SampleSet == {<<R.sample[i][1], R.sample[i][2], R.sample[i][3], R.sample[i][4]>> : i \in 1..Len(R.sample)}
NearU(u, v, t) == u[1] = v[1] /\ u[4] = v[4] /\ Abs(u[2] - v[2]) <= t /\ Abs(u[3] - v[3]) <= t

ObsDrawOrder == ~bad
ObsComplete == AtEnd => (pc = "done" /\ l = Len(R.draws) + 1)                 \* exactly the draws the spec needs, no more, no fewer
ObsUnitsFromDraws == (AtEnd /\ ~bad) =>
    /\ Cardinality(out) = Len(R.sample)
    /\ \A u \in out : \E v \in SampleSet : NearU(u, v, Tolr(Cardinality(out)))
    /\ \A v \in SampleSet : \E u \in out : NearU(u, v, Tolr(Cardinality(out)))
ObsValid == AtEnd =>
    /\ Len(R.sample) >= 1                                                      \* non-empty
    /\ R.sanns = [i \in 1..NAnn |-> i]                                         \* exactly the ground-truth annotators, in order
    /\ \A i \in 1..Len(R.sample) : /\ R.sample[i][5] >= PrecisionN             \* longer than the segment precision
                                   /\ R.sample[i][4] \in ToSet(R.cats)         \* only categories of the reference / supplied list
                                   /\ R.sample[i][1] \in 1..NAnn

(* ---- law parameters ---- *)
Sum(f, Sd) == FoldSet(LAMBDA i, acc : acc + f[i], 0, Sd)
SumSq(f, Sd) == FoldSet(LAMBDA i, acc : acc + f[i] * f[i], 0, Sd)
\* a logged (mu, sigma) agrees with the population `vals` (sequence of integers): mean = S/n, n^2 var = n*Q - S^2
Agrees(d, vals) ==
    LET n == Len(vals) S0 == Sum(vals, 1..n) Q == SumSq(vals, 1..n) IN
    /\ Abs(d.mu * n - S0 * K) <= n
    /\ Abs(d.var * n * n - (n * Q - S0 * S0) * 1000) <= n * n
Ref == R.ref
AnnUnits(a) == SelectSeq(Ref.units, LAMBDA u : u[1] = a)                      \* in the library's unit order
CountVals == [a \in 1..Ref.nann |-> Len(AnnUnits(a))]
DurVals == [i \in 1..Len(Ref.units) |-> Ref.units[i][3] - Ref.units[i][2]]
InnerGaps == FlattenSeq([a \in 1..Ref.nann |->
                 [i \in 1..(IF Len(AnnUnits(a)) = 0 THEN 0 ELSE Len(AnnUnits(a)) - 1) |-> AnnUnits(a)[i + 1][2] - AnnUnits(a)[i][3]]])
FirstGaps == FlattenSeq([a \in 1..Ref.nann |->
                 IF Len(AnnUnits(a)) > 0 /\ AnnUnits(a)[1][2] > 0 THEN <<AnnUnits(a)[1][2]>> ELSE <<>>])
\* the gap estimator is not fixed by the property: the code's variant and its obvious neighbours are all accepted
GapVariants == {<<0>> \o InnerGaps \o FirstGaps, InnerGaps \o FirstGaps, <<0>> \o InnerGaps, InnerGaps}
CatCount(c) == Cardinality({i \in 1..Len(Ref.units) : Ref.units[i][4] = c})

ParamsOK(i, kind) ==
    LET d == R.draws[i] IN
    IF R.custom = 1
    THEN CASE kind = "count" -> d.mu = R.given.count[1] /\ d.sigma = R.given.count[2]
           [] kind = "gap" -> d.mu = R.given.gap[1] /\ d.sigma = R.given.gap[2]
           [] kind = "dur" -> d.mu = R.given.dur[1] /\ d.sigma = R.given.dur[2]
           [] kind = "cat" -> /\ d.p = R.given.w                                \* <<>> when no weights were given (uniform)
                              /\ d.alist = R.cats                                \* over the categories in the SUPPLIED order (weights match)
    ELSE CASE kind = "count" -> Agrees(d, CountVals)
           [] kind = "gap" -> \E g \in GapVariants : Len(g) > 0 /\ Agrees(d, g)
           [] kind = "dur" -> Agrees(d, DurVals)
           [] kind = "cat" -> /\ d.alist = R.cats
                              /\ Len(d.p) = Len(R.cats)
                              /\ \A c \in 1..Len(R.cats) :
                                     Abs(d.p[c] * Len(Ref.units) - CatCount(R.cats[c]) * 10000) <= Len(Ref.units)
\* judged on the state BEFORE consuming draw l: pc tells which kind the spec expects
ObsLawParams == (l <= Len(R.draws) /\ ~bad /\ pc # "done" /\ (pc = "cat") = (E.k = "choice") /\ R.judgeparams = 1)
                    => ParamsOK(l, pc)

Judge(name, ok) == ok \/ PrintT(ToJson([verdict |-> name, tid |-> tid, l |-> l]))
Verdicts ==
    /\ AtEnd => PrintT(ToJson([done |-> tid]))
    /\ Judge("ObsDrawOrder", ObsDrawOrder)
    /\ Judge("ObsComplete", ObsComplete)
    /\ Judge("ObsUnitsFromDraws", ObsUnitsFromDraws)
    /\ Judge("ObsValid", ObsValid)
    /\ Judge("ObsLawParams", ObsLawParams)
=============================================================================
