---------------------------- MODULE ContinuumInd ----------------------------
(* The container model of Continuum.tla restated without recursion and with type       *)
(* annotations, so that Apalache can check that HeapWellFormed is an INDUCTIVE          *)
(* invariant: it holds initially and every call preserves it, for UNBOUNDED histories,  *)
(* unbounded times / labels / annotators (sets bounded only by the Gen() sizes).        *)
(*   apalache-mc check --init=Init    --inv=IndInv --length=0 ContinuumInd.tla          *)
(*   apalache-mc check --init=IndInit --inv=IndInv --length=1 ContinuumInd.tla          *)
EXTENDS Integers, FiniteSets, Apalache

\* @typeAlias: unit = <<Int, Int, Int, Int>>;
\* @typeAlias: cont = { live: Bool, ann: Set(Int), units: Set($unit), cats: Set(Int), lo: Int, hi: Int };
ContAliases == TRUE

Obj == {1, 2}

VARIABLE
    \* @type: Int -> $cont;
    heap

\* @type: $cont;
Dead == [live |-> FALSE, ann |-> {}, units |-> {}, cats |-> {}, lo |-> 0, hi |-> 0]
\* @type: $cont;
Empty == [live |-> TRUE, ann |-> {}, units |-> {}, cats |-> {}, lo |-> 0, hi |-> 0]

\* @type: ($cont) => Set(Int);
LabelsInUse(c) == {u[4] : u \in c.units} \ {0}

\* @type: ($cont) => Bool;
WellFormed(c) ==
    /\ \A u \in c.units : u[1] \in c.ann /\ u[2] < u[3]
    /\ LabelsInUse(c) \subseteq c.cats
    /\ \A u \in c.units : c.lo <= u[2] /\ u[3] <= c.hi
    /\ ~c.live => c = Dead

IndInv == \A o \in Obj : WellFormed(heap[o])

Init == heap = [o \in Obj |-> Dead]

\* any well-formed heap (the induction hypothesis)
IndInit ==
    /\ heap = Gen(2)
    /\ DOMAIN heap = Obj
    /\ \A o \in Obj : Cardinality(heap[o].units) <= 3
    /\ IndInv

\* @type: (Int, Int) => Int;
Min2(a, b) == IF a < b THEN a ELSE b
\* @type: (Int, Int) => Int;
Max2(a, b) == IF a > b THEN a ELSE b

New(o) == ~heap[o].live /\ heap' = [heap EXCEPT ![o] = Empty]

Add(o, a, s, e, l) ==
    /\ heap[o].live
    /\ IF s >= e THEN heap' = heap
       ELSE heap' = [heap EXCEPT ![o] = [live |-> TRUE, ann |-> heap[o].ann \cup {a},
                                         units |-> heap[o].units \cup {<<a, s, e, l>>},
                                         cats |-> IF l = 0 THEN heap[o].cats ELSE heap[o].cats \cup {l},
                                         lo |-> Min2(heap[o].lo, s), hi |-> Max2(heap[o].hi, e)]]

AddAnnotator(o, a) == heap[o].live /\ heap' = [heap EXCEPT ![o] = [heap[o] EXCEPT !.ann = heap[o].ann \cup {a}]]

Remove(o, u) == heap[o].live /\ heap' = [heap EXCEPT ![o] = [heap[o] EXCEPT !.units = heap[o].units \ {u}]]

Copy(o, o2) ==
    /\ heap[o].live /\ ~heap[o2].live
    /\ \E extra \in SUBSET heap[o].cats :
          heap' = [heap EXCEPT ![o2] = [heap[o] EXCEPT !.cats = LabelsInUse(heap[o]) \cup extra]]

CopyFlush(o, o2) ==
    /\ heap[o].live /\ ~heap[o2].live
    /\ heap' = [heap EXCEPT ![o2] = [Empty EXCEPT !.lo = heap[o].lo, !.hi = heap[o].hi]]

\* merge: annotators and units joined, categories of the units added, bounds grown to what was added
MergeInPlace(o, o2) ==
    /\ heap[o].live /\ heap[o2].live
    /\ \E lo2, hi2 \in Int :
          /\ lo2 <= heap[o].lo /\ hi2 >= heap[o].hi
          /\ \A u \in heap[o2].units : lo2 <= u[2] /\ u[3] <= hi2
          /\ heap' = [heap EXCEPT ![o] = [live |-> TRUE,
                                          ann |-> heap[o].ann \cup heap[o2].ann \cup {u[1] : u \in heap[o2].units},
                                          units |-> heap[o].units \cup heap[o2].units,
                                          cats |-> heap[o].cats \cup LabelsInUse(heap[o2]),
                                          lo |-> lo2, hi |-> hi2]]

ResetBounds(o) ==
    /\ heap[o].live
    /\ IF heap[o].units = {} THEN heap' = [heap EXCEPT ![o] = [heap[o] EXCEPT !.lo = 0, !.hi = 0]]
       ELSE \E m \in {u[2] : u \in heap[o].units}, M \in {u[3] : u \in heap[o].units} :
              /\ \A u \in heap[o].units : m <= u[2] /\ u[3] <= M
              /\ heap' = [heap EXCEPT ![o] = [heap[o] EXCEPT !.lo = m, !.hi = M]]

Drop(o) == heap[o].live /\ heap' = [heap EXCEPT ![o] = Dead]

Next ==
    \/ \E o \in Obj : New(o) \/ ResetBounds(o) \/ Drop(o)
    \/ \E o \in Obj : \E a, s, e, l \in Int : l >= 0 /\ (Add(o, a, s, e, l) \/ AddAnnotator(o, a))
    \/ \E o \in Obj : \E u \in heap[o].units : Remove(o, u)
    \/ \E o, o2 \in Obj : Copy(o, o2) \/ CopyFlush(o, o2) \/ MergeInPlace(o, o2)
=============================================================================
