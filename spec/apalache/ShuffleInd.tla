------------------------------ MODULE ShuffleInd ------------------------------
(* The pivot bookkeeping of ShuffleSampler.tla (float mode) for UNBOUNDED bounds, distance  *)
(* and number of pivots: "every available interval lies entirely at least Dist away from     *)
(* every pivot drawn so far, and the pivots are pairwise at least Dist apart" is an          *)
(* inductive invariant of drawing a pivot from an available interval and subtracting its     *)
(* zone (RemoveFixed).  With the library's pre-fix subtraction (Variant = TRUE) it is not.   *)
(*   apalache-mc check --init=IndInit --inv=IndInv --length=1 ShuffleInd.tla                 *)
EXTENDS Integers, FiniteSets, Apalache

VARIABLES
    \* @type: Set(<<Int, Int>>);
    avail,
    \* @type: Set(Int);
    pivots,
    \* @type: Int;
    lo,
    \* @type: Int;
    hi,
    \* @type: Int;
    dist,
    \* @type: Bool;
    buggy

\* @type: (Int, Int) => Int;
Max2(a, b) == IF a > b THEN a ELSE b
\* @type: (Int, Int) => Int;
Min2(a, b) == IF a < b THEN a ELSE b

\* @type: (Int, <<Int, Int>>) => Set(<<Int, Int>>);
PiecesFixed(p, s) ==
    IF s[1] >= p - dist
    THEN (IF s[2] <= p + dist THEN {} ELSE {<<Max2(p + dist, s[1]), s[2]>>})
    ELSE (IF s[2] > p + dist THEN {<<s[1], p - dist>>, <<p + dist, s[2]>>} ELSE {<<s[1], Min2(p - dist, s[2])>>})
\* @type: (Int, <<Int, Int>>) => Set(<<Int, Int>>);
PiecesBuggy(p, s) ==
    IF s[1] >= p - dist
    THEN (IF s[2] <= p + dist THEN {} ELSE {<<p + dist, s[2]>>})
    ELSE (IF s[2] > p + dist THEN {<<s[1], p - dist>>, <<p + dist, s[2]>>} ELSE {<<s[1], p - dist>>})

\* @type: (<<Int, Int>>, Int) => Bool;
Clear(s, p) == s[2] <= p - dist \/ s[1] >= p + dist          \* the whole interval is at least dist away from p

IndInv ==
    /\ dist > 0 /\ lo <= hi
    /\ \A s \in avail : lo <= s[1] /\ s[1] <= s[2] /\ s[2] <= hi
    /\ \A s \in avail : \A p \in pivots : Clear(s, p)
    /\ \A p, q \in pivots : p = q \/ p - q >= dist \/ q - p >= dist

Init == /\ lo = 0 /\ hi = 100 /\ dist = 3 /\ buggy = FALSE
        /\ avail = {<<0, 100>>} /\ pivots = {}

IndInit ==
    /\ avail = Gen(3) /\ pivots = Gen(3)
    /\ lo = Gen(1) /\ hi = Gen(1) /\ dist = Gen(1) /\ buggy \in BOOLEAN
    /\ IndInv

Next ==
    /\ \E s \in avail : \E x \in Int :
          /\ s[1] <= x /\ x <= s[2]
          /\ pivots' = pivots \cup {x}
          /\ avail' = UNION {(IF buggy THEN PiecesBuggy(x, t) ELSE PiecesFixed(x, t)) : t \in avail}
    /\ UNCHANGED <<lo, hi, dist, buggy>>

IndInitFixed == IndInit /\ ~buggy
IndInitBuggy == IndInit /\ buggy
=============================================================================
