--------------------------------- MODULE Check ---------------------------------
(* Alignment.check / SoftAlignment.check: outcome as a function of the bag of unitary   *)
(* alignments and the continuum.  TLC enumerates EVERY sequence of <= MaxT tuples over  *)
(* the units of small continua (valid ones, ones with dropped / duplicated / moved      *)
(* units, in every order) and prints the expected outcome of both checks.               *)
EXTENDS Align, Json

CONSTANTS SizeChoices, MaxT, Emit
VARIABLES sizes, al
SmallSizes == {<<1, 1>>, <<2, 1>>, <<1, 2>>, <<2, 2>>, <<1, 1, 1>>}
MoreSizes == SmallSizes \cup {<<2, 1, 1>>, <<3, 1>>, <<1, 1, 1, 1>>, <<0, 2>>, <<2, 0, 1>>}
I == [n |-> Len(sizes), sizes |-> sizes, D |-> <<>>, de |-> 0]
PartitionOutcome == IF \A u \in AllUnits(I) : Occurrences(I, al, u) = 1 THEN "ok" ELSE "SetPartitionError"
CoverOutcome == IF \A u \in AllUnits(I) : Occurrences(I, al, u) >= 1 THEN "ok" ELSE "SetPartitionError"
Init == /\ sizes \in SizeChoices
        /\ al \in UNION {[1..k -> (Tuples([n |-> Len(sizes), sizes |-> sizes]) \ {AllNull([n |-> Len(sizes), sizes |-> sizes])})] : k \in 1..MaxT}
Next == UNCHANGED <<sizes, al>>
Spec == Init /\ [][Next]_<<sizes, al>>
EmitCase == Emit => PrintT(ToJson([sizes |-> sizes, al |-> al, partition |-> PartitionOutcome, cover |-> CoverOutcome]))
\* lemmas
Reversed == [k \in 1..Len(al) |-> al[Len(al) + 1 - k]]
OrderFree == \A u \in AllUnits(I) : Occurrences(I, al, u) = Occurrences(I, Reversed, u)
PartitionIsCover == PartitionOutcome = "ok" => CoverOutcome = "ok"
PartitionIffIsPartition == (PartitionOutcome = "ok") = IsPartition(I, al)
=============================================================================
