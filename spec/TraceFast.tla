------------------------------ MODULE TraceFast ------------------------------
(* Code -> spec for get_fast_alignment: the iterations of real runs, recorded  *)
(* by harness-side wrappers, re-executed against the loop structure of         *)
(* FastAlign.tla.  Units are integers (index in the continuum's iteration).    *)
(*   run.n, run.w, run.total                                                   *)
(*   run.iters[k] = [remaining, window, head, chosen]   (sets as arrays)       *)
(*   run.result   = units of the returned alignment (with repetitions)         *)
(*   run.jobs[k]  = <<bws, algorithm>> for fast-mode gamma jobs                *)
EXTENDS Integers, Sequences, FiniteSets, FiniteSetsExt, TLC, Json, IOUtils, SequencesExt

File == JsonDeserialize(IOEnv.TRACE_FILE)
Runs == File.runs

VARIABLES tid, l, rem
tfvars == <<tid, l, rem>>
R == Runs[tid]
E == R.iters[l]
Prev == R.iters[l - 1]

Init == tid \in 1..Len(Runs) /\ l = 1 /\ rem = 0..(Runs[tid].total - 1)

Iterate == /\ l <= Len(R.iters)
           /\ rem' = rem \ ToSet(E.chosen)          \* RemoveChosen
           /\ l' = l + 1 /\ tid' = tid
Spec == Init /\ [][Iterate]_tfvars

Min2(a, b) == IF a < b THEN a ELSE b
(* judged on the state BEFORE consuming line l (rem = what the spec says is left) *)
HasLine == l <= Len(R.iters)
ObsRemaining == HasLine => ToSet(E.remaining) = rem                         \* the code works on exactly the units left
WindowSubset == HasLine => ToSet(E.window) \subseteq rem
HeadSize     == HasLine => /\ ToSet(E.head) \subseteq ToSet(E.window)
                           /\ Len(E.head) >= Min2(Cardinality(rem), R.w * R.n)  \* at least min(total, w*n) leftmost units
IterShrinks  == HasLine => E.chosen # <<>>                                  \* every iteration removes something
ChosenInWindow == HasLine => ToSet(E.chosen) \subseteq ToSet(E.window)
ChosenOnce   == HasLine => Cardinality(ToSet(E.chosen)) = Len(E.chosen)
IterBound    == Len(R.iters) <= R.total + 1                                 \* the modelled algorithm removes >= 1 unit per iteration
(* at the end *)
AtEnd == l = Len(R.iters) + 1
ObsAllRemoved == AtEnd => ((R.finished = 1 /\ R.bb = 0) => rem = {})     \* bb = 1: the iterations could not be observed
ObsFinished == AtEnd => R.finished = 1                                      \* the call returned (no stall, no exception)
ObsResultPartition == (AtEnd /\ R.finished = 1) =>
    /\ Len(R.result) = R.total /\ ToSet(R.result) = 0..(R.total - 1)
ObsJobs == AtEnd => \A k \in 1..Len(R.jobs) : (R.jobs[k][1] = 0) = (R.jobs[k][2] = "best")   \* bws = inf <=> exact algorithm

(* ---- the fast-vs-exact decision of measure_best_window_size (performance section of the documentation):        ----*)
(*   C(w) = n p + (n / w) (lambda (w+s)^p + D),  lambda = 1/20,  n = average units per annotator, p annotators,        *)
(*   s = largest annotator of the smallest window; windowing is advantageous iff min_w C(w) < n p + lambda n^p.        *)
(* Judged only where the estimate is clear-cut (a factor 2 either way): the estimate is a heuristic, its direction is   *)
(* what the property relies on.                                                                                        *)
Log2m(k) == File.log2[k]                                   \* round(1000 * log2(k))
RECURSIVE Pow(_, _)
Pow(b, e) == IF e = 0 THEN 1 ELSE LET r == Pow(b, e - 1) IN IF r > 20000000 THEN 400000000 ELSE r * b    \* capped
EstX(w, n, p, sx) == (n - w) * p + 2 * p + (w + sx * p) * p + w * p + Pow(w + sx, p) \div 20
                     + ((w + sx) * p * Log2m((w + sx) * p)) \div 1000
LogFact(w) == FoldSet(LAMBDA i, acc : acc + Log2m(i), 0, 1..w) \div 1000
EstC(w, n, p, sx) == n * p + (EstX(w, n, p, sx) * n) \div w + p * LogFact(w)
EstExact(n, p) == n * p + Pow(n, p) \div 20
ObsWindowEstimate ==
    AtEnd => \A k \in 1..Len(R.est) :
        LET e == R.est[k]
            ws == 1..((IF e.maxper > 2 THEN e.maxper ELSE 2) - 1)
            A == Min({EstC(w, e.n, e.p, e.s) : w \in ws})
            B == EstExact(e.n, e.p)
        IN (e.n >= 1 /\ (e.maxper + e.s) * e.p < Len(File.log2)) =>
              /\ 2 * A < B => e.bws > 0                                   \* clearly advantageous: a finite window is chosen
              /\ A > 2 * B => e.bws = 0                                   \* clearly disadvantageous: the exact algorithm
              /\ e.bws > 0 => (e.bws \in ws /\ EstC(e.bws, e.n, e.p, e.s) <= 2 * A + 2)

Judge(name, ok) == ok \/ PrintT(ToJson([verdict |-> name, tid |-> tid, l |-> l]))
Verdicts ==
    /\ AtEnd => PrintT(ToJson([done |-> tid]))
    /\ Judge("ObsRemaining", ObsRemaining)
    /\ Judge("WindowSubset", WindowSubset)
    /\ Judge("HeadSize", HeadSize)
    /\ Judge("IterShrinks", IterShrinks)
    /\ Judge("ChosenInWindow", ChosenInWindow)
    /\ Judge("ChosenOnce", ChosenOnce)
    /\ Judge("IterBound", IterBound)
    /\ Judge("ObsAllRemoved", ObsAllRemoved)
    /\ Judge("ObsFinished", ObsFinished)
    /\ Judge("ObsResultPartition", ObsResultPartition)
    /\ Judge("ObsJobs", ObsJobs)
    /\ Judge("ObsWindowEstimate", ObsWindowEstimate)
=============================================================================
