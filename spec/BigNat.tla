-------------------------------- MODULE BigNat --------------------------------
(* Natural numbers beyond TLC's 32-bit integers: little-endian sequences of base-10^4 digits. *)
EXTENDS Integers, Sequences, FiniteSets, FiniteSetsExt
Base == 10000
RECURSIVE Carry(_, _)
Carry(s, c) == IF s = <<>> THEN (IF c = 0 THEN <<>> ELSE <<c % Base>> \o Carry(<<>>, c \div Base))
               ELSE LET v == Head(s) + c IN <<v % Base>> \o Carry(Tail(s), v \div Base)
RECURSIVE Strip(_)
Strip(s) == IF s # <<>> /\ s[Len(s)] = 0 THEN Strip(SubSeq(s, 1, Len(s) - 1)) ELSE s
Norm(s) == Strip(Carry(s, 0))
FromInt(n) == Norm(<<n>>)
Mul(x, y) ==
    IF x = <<>> \/ y = <<>> THEN <<>>
    ELSE Norm([k \in 1..(Len(x) + Len(y) - 1) |->
                 FoldSet(LAMBDA i, acc : acc + x[i] * y[k + 1 - i], 0,
                         {i \in 1..Len(x) : k + 1 - i >= 1 /\ k + 1 - i <= Len(y)})])
\* digit-wise sum (not normalised: apply Carry(., 0) and Strip)
ZipAdd(x, y) == [k \in 1..(IF Len(x) > Len(y) THEN Len(x) ELSE Len(y)) |->
                  (IF k <= Len(x) THEN x[k] ELSE 0) + (IF k <= Len(y) THEN y[k] ELSE 0)]
Add(x, y) == Norm(ZipAdd(x, y))
RECURSIVE GeqFrom(_, _, _)
GeqFrom(x, y, k) == IF k = 0 THEN TRUE
                    ELSE IF x[k] # y[k] THEN x[k] > y[k] ELSE GeqFrom(x, y, k - 1)
\* x >= y for normalised x, y
Geq(x, y) == IF Len(x) # Len(y) THEN Len(x) > Len(y) ELSE GeqFrom(x, y, Len(x))
ASSUME Mul(FromInt(123456789), FromInt(987654321)) = <<5269, 1263, 6311, 1932, 12>>
ASSUME Geq(FromInt(100000000), FromInt(99999999)) /\ ~Geq(FromInt(99999999), FromInt(100000000))
=============================================================================
