---------------------------------- MODULE Cst ----------------------------------
(***************************************************************************)
(* The corpus shuffling tool, per generated annotator (annotators are       *)
(* perturbed independently).  units = set of <<start, end, category>> on an *)
(* integer line; every random draw is an environment choice.                *)
(* Each perturbation is an action; `last` names it so that confinement can  *)
(* be stated as action properties.                                          *)
(***************************************************************************)
EXTENDS Integers, Sequences, FiniteSets, FiniteSetsExt, TLC

CONSTANTS Ref,          \* the reference annotator's units
          Cats,         \* categories of the reference continuum
          TMax,         \* time line 0..TMax
          Mag,          \* "zero" | "mid" | "one"   (magnitude 0, in between, 1)
          Variant       \* "none" | "falseneg_no_security" | "split_keeps_original"

VARIABLES units, last, steps
cstvars == <<units, last, steps>>

Segs == {<<s, e>> \in (0..TMax) \X (0..TMax) : s < e}
TotalDur(U) == FoldSet(LAMBDA u, acc : acc + (u[2] - u[1]), 0, U)
SegsOf(U) == {<<u[1], u[2]>> : u \in U}

Init == units = Ref /\ last = "from_reference" /\ steps = 0        \* corpus_from_reference: an exact copy

\* shift: every unit gets new ends (any, start < end, no two units made equal); magnitude 0: nothing moves
Offs == {-1, 0, 1} \X {-1, 0, 1}                        \* shift_max = 1 in the bounded model
Moved(u, o) == <<u[1] + o[1], u[2] + o[2], u[3]>>
Shift == /\ \E off \in [units -> Offs] :
               /\ Mag = "zero" => \A u \in units : off[u] = <<0, 0>>
               /\ \A u \in units : Moved(u, off[u])[1] < Moved(u, off[u])[2] /\ Moved(u, off[u])[1] >= 0 /\ Moved(u, off[u])[2] <= TMax
               /\ \A u, v \in units : u # v => Moved(u, off[u]) # Moved(v, off[v])
               /\ units' = {Moved(u, off[u]) : u \in units}
         /\ last' = "shift" /\ steps' = steps + 1
\* false negatives: any units removed, but never all of them
FalseNeg == /\ \E keep \in SUBSET units :
                  /\ Mag = "zero" => keep = units
                  /\ keep # {} \/ Variant = "falseneg_no_security"
                  /\ units' = keep
            /\ last' = "false_neg" /\ steps' = steps + 1
\* false positives: units added (any position, positive duration, a category of the reference)
FalsePos == /\ \E add \in {{}} \cup {{<<sg[1], sg[2], c>>} : sg \in Segs, c \in Cats} :
                  /\ Mag = "zero" => add = {}
                  /\ units' = units \cup add
            /\ last' = "false_pos" /\ steps' = steps + 1
\* category shuffle: every unit keeps its segment and gets some category of the reference
CatShuffle == /\ \E f \in [units -> Cats] :
                    /\ Mag = "zero" => \A u \in units : f[u] = u[3]
                    /\ units' = {<<u[1], u[2], f[u]>> : u \in units}
              /\ last' = "cat_shuffle" /\ steps' = steps + 1
\* one split: a unit is cut in two at an interior point
Split == /\ Mag # "zero"
         /\ \E u \in units : \E cut \in (u[1] + 1)..(u[2] - 1) :
               units' = (IF Variant = "split_keeps_original" THEN units ELSE units \ {u}) \cup {<<u[1], cut, u[3]>>, <<cut, u[2], u[3]>>}
         /\ last' = "split" /\ steps' = steps + 1

Next == Shift \/ FalseNeg \/ FalsePos \/ CatShuffle \/ Split
Spec == Init /\ [][Next]_cstvars

(* ------------------------------ properties ------------------------------ *)
NeverEmpty == units # {}
PositiveDurations == \A u \in units : u[1] < u[2]
OnlyRefCategories == \A u \in units : u[3] \in Cats
MagnitudeZeroIsCopy == Mag = "zero" => units = Ref
\* confinement of each perturbation
CatShuffleKeepsSegments == [][last' = "cat_shuffle" => SegsOf(units') = SegsOf(units)]_cstvars
SplitKeepsDuration == [][last' = "split" => (TotalDur(units') = TotalDur(units) \/ Cardinality(units') < Cardinality(units) + 1)]_cstvars
SplitAddsOne == [][last' = "split" => Cardinality(units') <= Cardinality(units) + 1]_cstvars
FalseNegOnlyRemoves == [][last' = "false_neg" => units' \subseteq units]_cstvars
FalsePosOnlyAdds == [][last' = "false_pos" => units \subseteq units']_cstvars
ShiftKeepsCount == [][last' = "shift" => Cardinality(units') = Cardinality(units)]_cstvars
=============================================================================
