SPECIFICATION Spec
CONSTRAINT Verdicts
