------------------------------- MODULE GammaCat -------------------------------
(***************************************************************************)
(* The categorical disorder behind gamma-cat and gamma-k, exactly, on an   *)
(* integer grid (durations <= 3, <= 5 annotators).                          *)
(* An alignment is a sequence of unitary alignments; a unitary alignment a  *)
(* sequence of slots; a slot is <<start, end, label>> or <<>> (empty unit). *)
(* A = [alpha, ad, de, cattype, M]:  alpha/ad the positional weight, de integer; categorical values are *)
(* in quarters (x4): "abs" 0 or 4*de, "pre" M[l1][l2]*de.                   *)
(* Weights are in units of 1/WS:  1/(k-1) * max(0, 1 - alpha*pos).          *)
(***************************************************************************)
EXTENDS Integers, Sequences, FiniteSets, FiniteSetsExt, TLC

PS == 3600                 \* 60^2: lcm of (dur1+dur2)^2 for durations 1..3
KS == 12                   \* lcm of k-1 for k = 2..5
WS == PS * KS
Abs(x) == IF x < 0 THEN -x ELSE x
Max2(a, b) == IF a > b THEN a ELSE b
IsReal(u) == u # <<>>
PosS(u, v, de) == LET n == Abs(u[1] - v[1]) + Abs(u[2] - v[2])          \* positional dissimilarity * PS
                      d == (u[2] - u[1]) + (v[2] - v[1])
                  IN (n * n * de * PS) \div (d * d)
Cat4(A, u, v) == IF A.cattype = "abs" THEN (IF u[3] = v[3] THEN 0 ELSE 4 * A.de)   \* categorical dissimilarity * 4
                 ELSE A.M[u[3]][v[3]] * A.de
RealCount(t) == Cardinality({i \in 1..Len(t) : IsReal(t[i])})
WBase(t) == IF RealCount(t) < 2 THEN 0 ELSE KS \div (RealCount(t) - 1)    \* 1/(k-1) * KS
PairsOf(t) == {p \in (1..Len(t)) \X (1..Len(t)) : p[1] < p[2]}
\* gamma-k: only pairs involving the chosen category count (cat = 0: gamma-cat, every pair counts)
Counts(t, p, cat) == cat = 0 \/ (IsReal(t[p[1]]) /\ t[p[1]][3] = cat) \/ (IsReal(t[p[2]]) /\ t[p[2]][3] = cat)
RealPair(t, p) == IsReal(t[p[1]]) /\ IsReal(t[p[2]])
HalfPair(t, p) == IsReal(t[p[1]]) # IsReal(t[p[2]])
\* alpha = A.alpha / A.ad (ad = 1 for whole alphas): everything below carries the extra factor A.ad
Conf(A, u, v) == Max2(0, A.ad * PS - A.alpha * PosS(u, v, A.de))          \* max(0, 1 - alpha*pos) * PS * ad
PairW(A, t, p) == WBase(t) * Conf(A, t[p[1]], t[p[2]])                    \* weight * WS
\* numerator (x 4*WS) and denominator (x WS) of the weighted mean
TupleNum(A, t, cat) == FoldSet(LAMBDA p, acc : acc +
        (IF ~Counts(t, p, cat) THEN 0
         ELSE IF RealPair(t, p) THEN Cat4(A, t[p[1]], t[p[2]]) * PairW(A, t, p)
         ELSE IF HalfPair(t, p) THEN 4 * A.de * A.de * WS * A.ad          \* unit/empty pair: delta_empty at weight delta_empty
         ELSE 0), 0, PairsOf(t))
TupleDen(A, t, cat) == FoldSet(LAMBDA p, acc : acc +
        (IF ~Counts(t, p, cat) THEN 0
         ELSE IF RealPair(t, p) THEN PairW(A, t, p)
         ELSE IF HalfPair(t, p) THEN A.de * WS * A.ad
         ELSE 0), 0, PairsOf(t))
Num(A, al, cat) == FoldSet(LAMBDA k, acc : acc + TupleNum(A, al[k], cat), 0, 1..Len(al))
Den(A, al, cat) == FoldSet(LAMBDA k, acc : acc + TupleDen(A, al[k], cat), 0, 1..Len(al))
AnyRealPair(al, cat) == \E k \in 1..Len(al) : \E p \in PairsOf(al[k]) : Counts(al[k], p, cat) /\ RealPair(al[k], p)
\* co-aligned units never differ in category and no unit is left unaligned
Agree(al) == \A k \in 1..Len(al) : /\ \A i \in 1..Len(al[k]) : IsReal(al[k][i])
                                   /\ \A i, j \in 1..Len(al[k]) : al[k][i][3] = al[k][j][3]
=============================================================================
