------------------------------- MODULE MC_Dissim -------------------------------
(* the formulas' algebraic properties on an integer grid: what C04 and C09 rely on *)
EXTENDS Dissim
CONSTANTS SMax, MaxLen, NLabels
Units == {<<s, s + k, l>> : s \in 0..SMax, k \in 1..MaxLen, l \in 1..NLabels}
DEs == {<<1, 1>>, <<2, 1>>, <<1, 2>>}
VARIABLES u, v, de
Init == u \in Units /\ v \in Units /\ de \in DEs
Next == UNCHANGED <<u, v, de>>
Spec == Init /\ [][Next]_<<u, v, de>>
Shift(x, c) == <<x[1] + c, x[2] + c, x[3]>>
Scale(x, c) == <<x[1] * c, x[2] * c, x[3]>>
Symmetric == REq(Pos(u, v, de), Pos(v, u, de)) /\ REq(AbsCat(u, v, de), AbsCat(v, u, de))
NonNegative == RLeq(RZero, Pos(u, v, de)) /\ RLeq(RZero, AbsCat(u, v, de))
ZeroOnIdentical == REq(Pos(u, u, de), RZero) /\ REq(AbsCat(u, u, de), RZero)
ShiftInvariant == \A c \in {1, 7, 4096} : REq(Pos(Shift(u, c), Shift(v, c), de), Pos(u, v, de))
ScaleInvariant == \A c \in {2, 3, 4} : REq(Pos(Scale(u, c), Scale(v, c), de), Pos(u, v, de))
LinearInDE == \A c \in {2, 4} : /\ REq(Pos(u, v, <<de[1] * c, de[2]>>), RMul(<<c, 1>>, Pos(u, v, de)))
                               /\ REq(AbsCat(u, v, <<de[1] * c, de[2]>>), RMul(<<c, 1>>, AbsCat(u, v, de)))
\* ordinal distance does not depend on the order in which the labels were supplied
OrdSupplyOrderFree ==
    LET s1 == <<1, 2, 3>> p1 == <<0, 1, 2>>
        s2 == <<3, 1, 2>> p2 == <<2, 0, 1>>       \* same label -> same position, another supply order
    IN NLabels = 3 => OrdDist(u, v, s1, p1) = OrdDist(u, v, s2, p2)
\* the bound used by the pruning: disjoint segments are further apart than delta_empty, nested ones closer
DisjointAboveDE == (u[2] <= v[1]) => RLeq(de, Pos(u, v, de))
=============================================================================
