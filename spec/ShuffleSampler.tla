---------------------------- MODULE ShuffleSampler ----------------------------
(***************************************************************************)
(* ShuffleContinuumSampler.sample_from_continuum on an integer line.       *)
(* K sub-steps per time unit, so that "whole number" pivots are multiples  *)
(* of K and int() truncation is visible.  avail = set of closed intervals  *)
(* <<lo, hi>> still available for pivots.                                   *)
(*   DrawPivot      a point of avail (float mode) / its truncation (int)    *)
(*   RemoveZone     interval subtraction of [p - Dist, p + Dist]            *)
(*   FallbackPivot  anywhere in the bounds when nothing is available        *)
(* The reference is abstract here; shifting / wrapping is checked as an     *)
(* operator lemma (ShiftLemma) and against the code in TraceShuffle.tla.    *)
(***************************************************************************)
EXTENDS Integers, Sequences, FiniteSets, FiniteSetsExt, TLC

CONSTANTS Lo, Hi,       \* bounds of the reference continuum (in sub-steps)
          Dist,         \* minimal distance between pivots = avg unit length / 2
          K,            \* sub-steps per time unit
          NPiv,         \* number of ground-truth annotators
          IntMode,      \* TRUE: int_pivot
          Variant       \* "none" | "extend_segments" (the library before its fix)

VARIABLES avail, pivots, roomy
svars == <<avail, pivots, roomy>>     \* roomy[i] = pivot i was drawn while room remained

Max2(a, b) == IF a > b THEN a ELSE b
Min2(a, b) == IF a < b THEN a ELSE b
Abs(x) == IF x < 0 THEN -x ELSE x
Trunc(x) == IF x >= 0 THEN (x \div K) * K ELSE -(((-x) \div K) * K)      \* int(): toward zero

RemoveFixed(p, segs) == UNION {
    IF s[1] >= p - Dist
      THEN IF s[2] <= p + Dist THEN {} ELSE {<<Max2(p + Dist, s[1]), s[2]>>}
      ELSE IF s[2] > p + Dist THEN {<<s[1], p - Dist>>, <<p + Dist, s[2]>>}
                              ELSE {<<s[1], Min2(p - Dist, s[2])>>} : s \in segs}
RemoveBuggy(p, segs) == UNION {
    IF s[1] >= p - Dist
      THEN IF s[2] <= p + Dist THEN {} ELSE {<<p + Dist, s[2]>>}
      ELSE IF s[2] > p + Dist THEN {<<s[1], p - Dist>>, <<p + Dist, s[2]>>}
                              ELSE {<<s[1], p - Dist>>} : s \in segs}
Remove(p, segs) == IF Variant = "extend_segments" THEN RemoveBuggy(p, segs) ELSE RemoveFixed(p, segs)

Init == avail = {<<Lo, Hi>>} /\ pivots = <<>> /\ roomy = <<>>

DrawPivot ==
    /\ Len(pivots) < NPiv /\ avail # {}
    /\ \E s \in avail : \E x \in s[1]..s[2] :
          LET p == IF IntMode THEN Trunc(x) ELSE x IN
          /\ pivots' = Append(pivots, p)
          /\ roomy' = Append(roomy, TRUE)
          /\ avail' = Remove(p, avail)

FallbackPivot ==
    /\ Len(pivots) < NPiv /\ avail = {}
    /\ \E x \in Lo..Hi :
          /\ pivots' = Append(pivots, x)          \* note: the fallback pivot is never truncated by the library
          /\ roomy' = Append(roomy, FALSE)
          /\ avail' = avail

Next == DrawPivot \/ FallbackPivot
Spec == Init /\ [][Next]_svars

(* ------------------------------ properties ------------------------------ *)
\* pivots drawn while room remained are at least Dist from every earlier pivot
Separated == \A i, j \in 1..Len(pivots) : (i < j /\ roomy[j]) => Abs(pivots[i] - pivots[j]) >= Dist
\* int mode: the same up to the truncation of int()   (the recorded known finding: deficit < 1 time unit)
SeparatedUpToTruncation == \A i, j \in 1..Len(pivots) : (i < j /\ roomy[j]) => Abs(pivots[i] - pivots[j]) > Dist - K
\* the bookkeeping is right: no available point is within Dist of an earlier pivot (interior points)
AvailExcludesZones == \A s \in avail : \A x \in s[1]..s[2] : \A i \in 1..Len(pivots) :
                          Abs(x - pivots[i]) >= Dist
AvailWellFormed == \A s \in avail : Lo <= s[1] /\ s[1] <= s[2] /\ s[2] <= Hi
PivotsInBounds == \A i \in 1..Len(pivots) : (IF IntMode THEN Lo - K < pivots[i] ELSE Lo <= pivots[i]) /\ pivots[i] <= Hi
IntPivots == IntMode => \A i \in 1..Len(pivots) : roomy[i] => pivots[i] % K = 0

(* shifting a unit <<s, e>> by pivot p with the wrap rule keeps its duration; its start stays within the bounds when
   they begin at 0 (the pivot is an absolute position, so with Lo > 0 a wrapped unit may still start beyond Hi) *)
Shift(u, p) == IF u[1] + p > Hi THEN <<u[1] + p + Lo - Hi, u[2] + p + Lo - Hi>> ELSE <<u[1] + p, u[2] + p>>
ShiftLemma == \A s \in Lo..Hi : \A p \in Lo..Hi :
                  LET v == Shift(<<s, s + 1>>, p) IN v[2] - v[1] = 1 /\ (Lo = 0 => (v[1] <= Hi /\ v[1] >= Lo))
=============================================================================
