------------------------------ MODULE TraceDissim ------------------------------
(* Code -> spec for the built-in dissimilarities.  One record = one dissimilarity  *)
(* object of the real library plus a batch of unit pairs with the three observed   *)
(* values: d(u,v), d(v,u) and the compiled form (the value used inside alignment   *)
(* computations), in fixed point 1e-5.  TLC evaluates the documented formula of    *)
(* Dissim.tla for every pair and judges.                                           *)
EXTENDS Dissim, Json, IOUtils, SequencesExt

File == JsonDeserialize(IOEnv.TRACE_FILE)
Recs == File.recs
VARIABLE tid
R == Recs[tid]
P(i) == R.pairs[i]
NP == Len(R.pairs)
FX == 100000
Tol(x) == 3 + Abs(x) \div 25000                     \* 2e-5 relative + 3e-5 absolute: single-precision rounding
NearFx(x, y) == Abs(x - y) <= Tol(x)
\* observed fixed-point value x against the rational q
NearR(x, q) == Abs(x * q[2] - q[1] * FX) <= Tol(x) * q[2]

Exact(i) == P(i).exact = 1                           \* integer-grid pair: the formula is decidable exactly
CatPart(i) ==
    CASE R.cat = "abs" -> AbsCat(P(i).u, P(i).v, R.de)
      [] R.cat = "pre" -> PreCat(P(i).u, P(i).v, R.M, R.de)
      [] R.cat = "lam" -> LamCat(P(i).u, P(i).v, R.M, R.de)
      [] OTHER -> RZero
Expected(i) ==
    CASE R.cls = "pos" -> Pos(P(i).u, P(i).v, R.de)
      [] R.cls = "cat" -> CatPart(i)
      [] R.cls = "comb" -> Comb(R.alpha, R.beta, Pos(P(i).u, P(i).v, R.de), CatPart(i))
HasFormula == R.cls = "pos" \/ R.cat \in {"abs", "pre"}

ObsFormula == HasFormula => \A i \in 1..NP : Exact(i) => NearR(P(i).d, Expected(i))
ObsCompiledFormula == HasFormula => \A i \in 1..NP : Exact(i) => NearR(P(i).comp, Expected(i))
\* user-defined Lambda subclasses: how the matrix is derived from the user's function is NOT part of the statement of C04;
\* reported as a beyond-statement deviation, never as a violation
ObsLambdaFormula == R.cat = "lam" => \A i \in 1..NP : Exact(i) => NearR(P(i).d, Expected(i)) /\ NearR(P(i).comp, Expected(i))
ObsTwoForms == \A i \in 1..NP : NearFx(P(i).d, P(i).comp)                   \* d() and the compiled form agree
ObsSymmetric == \A i \in 1..NP : NearFx(P(i).d, P(i).dsym) /\ NearFx(P(i).comp, P(i).compsym)
ObsNonNegative == \A i \in 1..NP : P(i).d >= 0 /\ P(i).comp >= 0
ObsZeroIdentical == \A i \in 1..NP : P(i).u = P(i).v => P(i).d = 0 /\ P(i).comp = 0
\* a categorical dissimilarity depends only on the two category names
SameNames(i, j) == {P(i).u[3], P(i).v[3]} = {P(j).u[3], P(j).v[3]}
ObsNamesOnly == R.cls = "cat" => \A i, j \in 1..NP : SameNames(i, j) => NearFx(P(i).d, P(j).d) /\ NearFx(P(i).comp, P(j).comp)
\* ordinal / numerical: proportional to the distance of the SUPPLIED positions (one constant per dissimilarity)
OD(i) == OrdDist(P(i).u, P(i).v, R.supplied, R.pos)
ObsProportional == (R.cls = "cat" /\ R.cat = "ord") =>
    \A i, j \in 1..NP : /\ Abs(P(i).d * OD(j) - P(j).d * OD(i)) <= Tol(P(i).d) * OD(j) + Tol(P(j).d) * OD(i)
                        /\ Abs(P(i).comp * OD(j) - P(j).comp * OD(i)) <= Tol(P(i).comp) * OD(j) + Tol(P(j).comp) * OD(i)
                        /\ (OD(i) > 0 => P(i).d > 0)
\* Levenshtein: for pairs of labels with the same longer length, the value is proportional to the edit distance
\* (labels are handed over as sequences of character codes, R.strs[rank])
RECURSIVE Lev(_, _)
Lev(a, b) == IF a = <<>> THEN Len(b) ELSE IF b = <<>> THEN Len(a)
             ELSE LET sub == Lev(Tail(a), Tail(b)) + (IF Head(a) = Head(b) THEN 0 ELSE 1)
                      del == Lev(Tail(a), b) + 1
                      ins == Lev(a, Tail(b)) + 1
                  IN IF sub <= del /\ sub <= ins THEN sub ELSE IF del <= ins THEN del ELSE ins
LD(i) == Lev(R.strs[P(i).u[3]], R.strs[P(i).v[3]])
MaxLen(i) == IF Len(R.strs[P(i).u[3]]) > Len(R.strs[P(i).v[3]]) THEN Len(R.strs[P(i).u[3]]) ELSE Len(R.strs[P(i).v[3]])
ObsLevenshtein == (R.cls = "cat" /\ R.cat = "lev") =>
    /\ \A i \in 1..NP : (LD(i) = 0) = (P(i).d = 0)
    /\ \A i, j \in 1..NP : MaxLen(i) = MaxLen(j) =>
           Abs(P(i).d * LD(j) - P(j).d * LD(i)) <= Tol(P(i).d) * LD(j) + Tol(P(j).d) * LD(i)
\* combined with an ordinal / Levenshtein component: the categorical part  (d - alpha*pos)/beta  obeys the same relations
ObsCombinedOneDeltaEmpty == (R.cls = "comb" /\ R.cat = "abs") =>          \* the categorical term carries the COMBINED delta_empty
    \A i \in 1..NP : (Exact(i) /\ P(i).u[1] = P(i).v[1] /\ P(i).u[2] = P(i).v[2] /\ P(i).u[3] # P(i).v[3])
                        => NearR(P(i).comp, RMul(R.beta, R.de)) /\ NearR(P(i).d, RMul(R.beta, R.de))

Init == tid \in 1..Len(Recs)
Next == UNCHANGED tid
Spec == Init /\ [][Next]_tid
Judge(name, ok) == ok \/ PrintT(ToJson([verdict |-> name, tid |-> tid]))
Verdicts ==
    /\ PrintT(ToJson([done |-> tid]))
    /\ Judge("ObsFormula", ObsFormula)
    /\ Judge("ObsCompiledFormula", ObsCompiledFormula)
    /\ Judge("ObsTwoForms", ObsTwoForms)
    /\ Judge("ObsSymmetric", ObsSymmetric)
    /\ Judge("ObsNonNegative", ObsNonNegative)
    /\ Judge("ObsZeroIdentical", ObsZeroIdentical)
    /\ Judge("ObsNamesOnly", ObsNamesOnly)
    /\ Judge("ObsProportional", ObsProportional)
    /\ Judge("ObsCombinedOneDeltaEmpty", ObsCombinedOneDeltaEmpty)
    /\ Judge("ObsLevenshtein", ObsLevenshtein)
    /\ Judge("ObsLambdaFormula", ObsLambdaFormula)
=============================================================================
