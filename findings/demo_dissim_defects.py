"""Demonstrations (against the real code) of dissimilarity / alignment defects found by the checks.
Run:  PYTHONPATH=/repo /venv/bin/python -W ignore /verif/findings/demo_dissim_defects.py
Each line prints what the property demands and what the code gives."""
import numpy as np
from pyannote.core import Segment
from sortedcontainers import SortedSet
import pygamma_agreement as pa
from pygamma_agreement.continuum import Unit

def compiled(d, u, v):
    return float(d.compute_disorder(pa.Alignment([pa.UnitaryAlignment([("a", u), ("b", v)])]))[0])

# 1. C01: unlabelled units
c = pa.Continuum(); c.add("a", Segment(0, 1)); c.add("b", Segment(0, 2))
for d in (pa.PositionalSporadicDissimilarity(), pa.CombinedCategoricalDissimilarity()):
    try:
        print("C01 unlabelled", type(d).__name__, "->", len(c.get_best_alignment(d).unitary_alignments), "unitary alignments")
    except Exception as ex:
        print("C01 unlabelled", type(d).__name__, "-> raises", repr(ex))
# 4. C04: combined delta_empty vs categorical component kernel
d = pa.CombinedCategoricalDissimilarity(alpha=0, beta=1, delta_empty=2.0)
u, v = Unit(Segment(0, 1), "x"), Unit(Segment(0, 1), "y")
print("C04 combined(delta_empty=2) x/y: d() =", d.d(u, v), " compiled =", compiled(d, u, v), " (formula: 2.0)")
# 5. C04: ordinal matrix order
d = pa.OrdinalCategoricalDissimilarity(["c", "a", "b"])      # positions c=0, a=1, b=2
print("C04 ordinal labels c,a,b: d(a,c) =", d.d(Unit(Segment(0, 1), "a"), Unit(Segment(0, 1), "c")), " (formula |1-0|/2 = 0.5)")
# 6. C04: more than 127 categories
labels = [f"l{i:03d}" for i in range(200)]
d = pa.OrdinalCategoricalDissimilarity(labels)
u, v = Unit(Segment(0, 1), "l010"), Unit(Segment(0, 1), "l160")
print("C04 200 categories: d() =", float(d.d(u, v)), " compiled =", compiled(d, u, v), " (formula 150/199 = %.4f)" % (150 / 199))
# 7. C03: UnitaryAlignment.compute_disorder with an empty slot
d = pa.PositionalSporadicDissimilarity()
ua = pa.UnitaryAlignment([("a", Unit(Segment(0, 4))), ("b", Unit(Segment(1, 4))), ("c", None)])
try:
    print("C03 unitary (one empty slot of three): compute_disorder =", float(ua.compute_disorder(d)),
          " definition = (d + 2*delta_empty)/3 = %.4f" % ((d.d(ua.n_tuple[0][1], ua.n_tuple[1][1]) + 2) / 3))
except Exception as ex:
    print("C03 unitary -> raises", repr(ex))
