"""Demonstrations of further defects (fast alignment stall, shuffling tool aliasing, CSV newline, CLI).
Run:  PYTHONPATH=/repo /venv/bin/python -W ignore /verif/findings/demo_other_defects.py"""
import json, os, signal, sys, tempfile
import numpy as np
from pyannote.core import Segment
import pygamma_agreement as pa
from pygamma_agreement.continuum import Unit

# 8. C10: get_fast_alignment never returns
c = pa.Continuum()
for a, s, e in [("a0", 0, 1), ("a0", 0, 2), ("a1", 0, 3), ("a1", 2, 3)]:
    c.add(a, Segment(s, e), "x")
def alarm(*_): raise TimeoutError
signal.signal(signal.SIGALRM, alarm); signal.alarm(5)
try:
    al = c.get_fast_alignment(pa.PositionalSporadicDissimilarity(), 1)
    print("C10 fast alignment (w=1) returned", len(al.unitary_alignments), "unitary alignments")
except TimeoutError:
    print("C10 fast alignment (w=1) of a0:[0,1],[0,2] a1:[0,3],[2,3] did not return within 5 s")
signal.alarm(0)

# 10. C14: the shuffling tool aliases the reference's category set
ref = pa.Continuum(); ref.add("ref", Segment(0, 5), "x"); ref.add("ref", Segment(6, 9), "y")
before = list(ref.categories)
cst = pa.CorpusShufflingTool(0.5, ref, categories=["extra"])
corpus = cst.corpus_from_reference(2)
corpus.add("annotator_0", Segment(20, 21), "new-label")
print("C14 reference categories before:", before, " after building a CST and mutating a generated corpus:", list(ref.categories))

# 13. C18: '\r' in a label through to_csv / from_csv
c = pa.Continuum(); c.add("a", Segment(0, 1), "x\ry")
with tempfile.TemporaryDirectory() as d:
    p = os.path.join(d, "t.csv"); c.to_csv(p); back = pa.Continuum.from_csv(p)
print("C18 label written:", repr("x\ry"), " read back:", [u.annotation for _, u in back])

# 11/12. C20: -d numerical and JSON output
from pygamma_agreement import cli_apps
import pygamma_agreement.continuum as cont
with tempfile.TemporaryDirectory() as d:
    p = os.path.join(d, "in.csv")
    with open(p, "w") as f:
        for a in "ab":
            for i, lab in enumerate(["1", "10", "2", "9"]):
                f.write(f"{a},{lab},{i * 10 + (a == 'b')},{i * 10 + 5}\n")
    seen = []
    orig = cont.Continuum.compute_gamma
    def spy(self, dissimilarity=None, **kw):
        seen.append(type(dissimilarity.categorical_dissim).__name__); return orig(self, dissimilarity=dissimilarity, **kw)
    cont.Continuum.compute_gamma = spy
    out = os.path.join(d, "out.json")
    sys.argv = ["pygamma-agreement", p, "-d", "numerical", "--seed", "1", "-n", "5", "-j", out]
    try:
        cli_apps.pygamma_cmd()
        print("C20 -d numerical -> categorical dissimilarity used:", seen, " json:", open(out).read()[:80].replace("\n", " "))
    except Exception as ex:
        print("C20 -d numerical -> categorical dissimilarity used:", seen, "; JSON output raises", repr(ex))
    cont.Continuum.compute_gamma = orig
