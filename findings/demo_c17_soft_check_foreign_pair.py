"""C17: 'checking a soft alignment succeeds if and only if every unit occurs at least once'.
A soft alignment in which every (annotator, unit) of the continuum occurs, plus one unit sitting in ANOTHER annotator's slot
(re-slotted and duplicated), made SoftAlignment.check raise KeyError, while Alignment.check accepts the same alignment.
Exit 0 = the property holds, 1 = defect shown.   Run: PYTHONPATH=/repo /venv/bin/python -W ignore findings/demo_c17_soft_check_foreign_pair.py"""
import sys
import pygamma_agreement as pa
from pyannote.core import Segment
from pygamma_agreement.alignment import SoftAlignment

c = pa.Continuum()
c.add("a", Segment(0, 2), "x")
c.add("b", Segment(1, 3), "y")
ua, ub = list(c["a"])[0], list(c["b"])[0]
tuples = [[("a", ua), ("b", ub)],      # every unit of the continuum, each in its own annotator's slot ...
          [("a", ub), ("b", None)]]    # ... and b's unit once more, in a's slot
bad = 0
for cls in (pa.Alignment, SoftAlignment):
    al = cls([pa.UnitaryAlignment(list(t)) for t in tuples], c)
    try:
        al.check()
        print(cls.__name__, "check: ok")
    except Exception as ex:
        print(cls.__name__, "check:", type(ex).__name__, ex)
        bad = 1
sys.exit(bad)
