"""C04: two combined dissimilarities built on the SAME categorical component object with different delta_empty.
Constructing the second one re-parametrises the shared component in place; the first one's d() then uses the second's
delta_empty while its compiled form (used inside alignments) still uses its own: the two forms disagree.
Exit 0 = the property holds, 1 = defect shown.   Run: PYTHONPATH=/repo /venv/bin/python -W ignore findings/demo_c04_shared_component.py"""
import sys
import numpy as np
import pygamma_agreement as pa
from pyannote.core import Segment
from pygamma_agreement.continuum import Unit
from sortedcontainers import SortedSet

cats = SortedSet(["a", "b"])
m = np.array([[0.0, 1.0], [1.0, 0.0]], dtype=np.float32)
comp = pa.PrecomputedCategoricalDissimilarity(cats, m, delta_empty=1.0)
first = pa.CombinedCategoricalDissimilarity(alpha=0.0, beta=1.0, delta_empty=2.0, cat_dissim=comp)
second = pa.CombinedCategoricalDissimilarity(alpha=0.0, beta=1.0, delta_empty=0.5, cat_dissim=comp)
u, v = Unit(Segment(0, 1), "a"), Unit(Segment(0, 1), "b")
bad = 0
for name, d, de in (("first", first, 2.0), ("second", second, 0.5)):
    direct = float(d.d(u, v))
    compiled = float(pa.UnitaryAlignment([("x", u), ("y", v)]).compute_disorder(d))
    want = 1.0 * 1.0 * de          # beta * matrix entry * the combined dissimilarity's delta_empty
    print(f"{name}: d(u,v)={direct} compiled={compiled} formula={want}")
    if abs(direct - want) > 1e-6 or abs(compiled - want) > 1e-6:
        bad = 1
sys.exit(bad)
