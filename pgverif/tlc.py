"""Running TLC (always under a timeout) and reading what it says."""
import json
import os
import re
import shutil
import subprocess
import time
from pathlib import Path

from .common import SPEC, MachineryError, scratch, seed

JAVA_CP = "/opt/veriftools/tla/tla2tools.jar:/opt/veriftools/tla/CommunityModules-deps.jar"
_counter = [0]


class TlcResult:
    def __init__(self):
        self.out = ""
        self.rc = None
        self.distinct = 0
        self.generated = 0
        self.violated = []       # names of violated invariants / properties
        self.errors = []         # other error lines
        self.printed = []        # decoded PrintT(ToJson(..)) payloads
        self.action_counts = {}  # action name -> states generated through it (needs coverage)
        self.wall = 0.0
        self.mode = "bfs"
        self.label = ""
        self.timed_out = False
        self.trace_text = ""

    @property
    def ok(self):
        return self.rc == 0 and not self.violated and not self.errors


def run(module: str, cfg: str, *, label: str = "", env: dict = None, workers="auto", timeout: int = 600,
        simulate: str = None, depth: int = None, coverage: bool = True, cont: bool = False,
        deadlock: bool = False, extra=(), heap: str = "4g", dfs: bool = False, on_print=None) -> TlcResult:
    """Run TLC on /verif/spec/<module>.tla with the given configuration text."""
    _counter[0] += 1
    work = scratch() / f"tlc{_counter[0]}"
    work.mkdir(parents=True, exist_ok=True)
    cfg_path = work / f"{module}.cfg"
    cfg_path.write_text(cfg)
    (work / "jtmp").mkdir(exist_ok=True)       # TLC / SANY unpack their standard modules into java.io.tmpdir: keep that in the scratch
    cmd = ["timeout", "-k", "5", str(timeout), "java", "-XX:+UseParallelGC", f"-Xmx{heap}", f"-Djava.io.tmpdir={work}/jtmp"]
    if dfs:
        cmd.append("-Dtlc2.tool.queue.IStateQueue=StateDeque")
    cmd += ["-cp", JAVA_CP, "tlc2.TLC", "-metadir", str(work / "meta"), "-noGenerateSpecTE",
            "-config", str(cfg_path), "-workers", str(workers), "-seed", str(seed())]
    if coverage and not simulate:
        cmd += ["-coverage", "1"]
    if cont:
        cmd.append("-continue")
    if not deadlock:
        cmd.append("-deadlock")      # "-deadlock" = do NOT check for deadlock
    if simulate:
        cmd += ["-simulate", simulate]
    if depth:
        cmd += ["-depth", str(depth)]
    cmd += list(extra)
    cmd.append(str(SPEC / f"{module}.tla"))
    e = dict(os.environ)
    e.pop("JAVA_TOOL_OPTIONS", None)
    if env:
        e.update({k: str(v) for k, v in env.items()})
    t0 = time.time()
    r = TlcResult()
    # stream the output: PrintT(ToJson(..)) payloads are decoded (or handed to on_print) line by line and not kept as text
    p = subprocess.Popen(cmd, cwd=str(SPEC), env=e, stdout=subprocess.PIPE, stderr=subprocess.STDOUT, text=True, bufsize=1 << 20)
    kept = []
    for line in p.stdout:
        if line.startswith('"{') or line.startswith('"['):
            try:
                obj = json.loads(json.loads(line))
                if on_print is not None:
                    on_print(obj)
                else:
                    r.printed.append(obj)
                continue
            except Exception:
                pass
        kept.append(line)
    p.wait()
    r.wall = time.time() - t0
    r.out, r.rc, r.label = "".join(kept), p.returncode, label or module
    r.mode = "simulate" if simulate else "bfs"
    r.timed_out = p.returncode in (124, 137)
    _parse(r)
    shutil.rmtree(work, ignore_errors=True)
    return r


_RE_STATES = re.compile(r"(\d+) states generated, (\d+) distinct states found")
_RE_SIM = re.compile(r"The number of states generated: (\d+)")
_RE_INV = re.compile(r"Invariant (\S+) is violated")
_RE_PROP = re.compile(r"(?:Action property|Temporal properties|property) (\S+)? ?(?:is|were) violated")
_RE_COV = re.compile(r"^<(\w+) line \d+, col \d+ to line \d+, col \d+ of module (\w+)(?: \([\d ]+\))?>: (\d+):(\d+)")


def _parse(r: TlcResult):
    in_trace = False
    trace = []
    for line in r.out.splitlines():
        m = _RE_STATES.search(line)
        if m:
            r.generated, r.distinct = int(m.group(1)), int(m.group(2))
        m = _RE_SIM.search(line)
        if m:
            r.generated = max(r.generated, int(m.group(1)))
            r.distinct = max(r.distinct, int(m.group(1)))
        m = _RE_INV.search(line)
        if m:
            r.violated.append(m.group(1).rstrip("."))
            in_trace = True
        elif "is violated" in line or "violated" in line and line.startswith("Error:"):
            r.violated.append(line.replace("Error:", "").strip())
            in_trace = True
        elif line.startswith("Error:"):
            if "behavior up to this point" not in line:
                r.errors.append(line)
            in_trace = True
        m = _RE_COV.match(line)
        if m:
            r.action_counts[m.group(1)] = r.action_counts.get(m.group(1), 0) + int(m.group(4))
        if in_trace and len(trace) < 400:
            trace.append(line)
    r.trace_text = "\n".join(trace)
    if r.timed_out:
        r.errors.append(f"TLC timed out ({r.label})")
    elif r.rc not in (0, 12, 13) and not r.violated and not r.errors:
        r.errors.append(f"TLC exit code {r.rc}")


def require(res: TlcResult, *, actions=(), what=""):
    """Machinery guard: TLC must have finished cleanly and exercised the named actions (vacuity)."""
    if res.errors:
        raise MachineryError(f"TLC failed on {res.label}: {res.errors[:3]}\n{res.out[-3000:]}")
    for a in actions:
        if res.action_counts.get(a, 0) == 0:
            raise MachineryError(f"vacuity: action {a} never taken in {res.label} ({what})")


def sany(module_path: Path) -> bool:
    p = subprocess.run(["java", "-cp", JAVA_CP, "tla2sany.SANY", str(module_path)], cwd=str(module_path.parent),
                       stdout=subprocess.PIPE, stderr=subprocess.STDOUT, text=True)
    return p.returncode == 0 and "Semantic errors" not in p.stdout and "Parsing or semantic analysis failed" not in p.stdout, p.stdout


def apalache(module: str, init: str, inv: str, length: int, timeout: int = 600, text: str = None) -> str:
    """Run apalache-mc check on spec/apalache/<module>.tla (or on `text`, a variant of it); returns 'NoError', 'Error'
    or a description of why it did not run."""
    import shutil as _sh
    if _sh.which("apalache-mc") is None:
        return "apalache-mc not available"
    _counter[0] += 1
    work = scratch() / f"apa{_counter[0]}"
    work.mkdir(parents=True, exist_ok=True)
    src = text if text is not None else (SPEC / "apalache" / f"{module}.tla").read_text()
    (work / f"{module}.tla").write_text(src)
    p = subprocess.run(["timeout", str(timeout), "apalache-mc", "check", f"--init={init}", f"--inv={inv}", f"--length={length}",
                        f"--out-dir={work}/out", f"{module}.tla"], cwd=str(work), stdout=subprocess.PIPE, stderr=subprocess.STDOUT, text=True)
    m = re.search(r"The outcome is: (\w+)", p.stdout)
    shutil.rmtree(work, ignore_errors=True)
    return m.group(1) if m else f"exit {p.returncode}: {p.stdout[-300:]}"
