"""C10 - fast alignment terminates with a valid, never-better-than-optimal alignment.

L1  TLC: FastAlign.tla on integer grids (every continuum of the universe, every solver tie): Progress, termination,
    partition at the end, never below the optimum, equal to it when the window covers everything; the library's
    pre-fix take_until_limit is kept as the mutant `no_progress`, which must violate NoStall.
L2  spec -> code: every initial continuum of the universe is run through the real get_fast_alignment under an
    iteration watchdog; its cost must be one of the final costs TLC reaches for that continuum.
L3  code -> spec: random continua (nested / long overlapping units, empty annotators, every dissimilarity, window sizes
    1..ceil(units/annotators)+1): per-iteration events judged by TraceFast.tla, the result by TraceAlign.tla together with
    the best alignment of the same continuum; fast-mode gamma jobs log which algorithm they used.
"""
import json
import math
import random

import numpy as np

from . import align
from . import alignrec as ar
from . import tlc
from .common import MachineryError, import_repo, scratch, seed

CFG = """SPECIFICATION Spec
CONSTANTS
 NA = {na}
 W = {w}
 SMax = {smax}
 MaxLen = {maxlen}
 MaxU = {maxu}
 Variant = "{variant}"
 EmitRuns = {emit}
INVARIANT NoStall
INVARIANT WindowIsSubset
INVARIANT PartitionAtDone
INVARIANT NeverBelowBest
INVARIANT EqualWhenCovering
PROPERTY Progress
PROPERTY Terminates
"""
L2SCALE = 840 * 840


class Stall(Exception):
    pass


class Probe:
    """Harness-side wrappers recording the iterations of get_fast_alignment (no change to the repository)."""

    def __init__(self, pa):
        self.pa = pa
        self.C = pa.Continuum
        self.A = pa.Alignment
        # get_first_window / take_until_limit are the library's own helpers of the windowed algorithm: if a refactoring removes or
        # renames them the probe degrades to a black box (no iteration records; the results are judged all the same)
        self.orig = (getattr(self.C, "get_first_window", None), getattr(self.A, "take_until_limit", None),
                     self.C.get_fast_alignment, self.C.get_best_alignment)
        self.blackbox = self.orig[0] is None or self.orig[1] is None
        self.iters = None
        self.index = None
        self.limit = None
        import threading
        self.tls = threading.local()
        self.jobs = None

    def unit_ids(self, c_like):
        return [self.index[(a, u)] for a, u in c_like]

    def install(self):
        probe = self
        o_win, o_take, o_fast, o_best = self.orig

        def get_first_window(self_c, dissimilarity, w=1):
            res = o_win(self_c, dissimilarity, w)
            if probe.iters is not None and getattr(probe.tls, 'depth', 0) == 1:
                window, xl = res
                probe.iters.append({"remaining": probe.unit_ids(self_c), "window": probe.unit_ids(window), "xl": float(xl),
                                    "head": [i for i in probe.unit_ids(window) if probe.end[i] <= xl], "chosen": []})
                if len(probe.iters) > probe.limit:
                    raise Stall()
            return res

        def take_until_limit(self_a, x_limit):
            for ua in o_take(self_a, x_limit):
                if probe.iters is not None and getattr(probe.tls, 'depth', 0) == 1 and probe.iters:
                    for a, u in ua.n_tuple:
                        if u is not None:
                            probe.iters[-1]["chosen"].append(probe.index.get((a, u), -1))
                yield ua

        def get_fast_alignment(self_c, dissimilarity, window_size):
            if probe.jobs is not None:
                probe.jobs.append([0 if math.isinf(self_c.best_window_size) else int(self_c.best_window_size), "fast"])
            probe.tls.depth = getattr(probe.tls, 'depth', 0) + 1
            try:
                return o_fast(self_c, dissimilarity, window_size)
            finally:
                probe.tls.depth -= 1

        def get_best_alignment(self_c, dissimilarity):
            if probe.jobs is not None and getattr(probe.tls, 'depth', 0) == 0:
                probe.jobs.append([0 if math.isinf(self_c.best_window_size) else int(self_c.best_window_size), "best"])
            return o_best(self_c, dissimilarity)

        if not self.blackbox:
            self.C.get_first_window = get_first_window
            self.A.take_until_limit = take_until_limit
        self.C.get_fast_alignment = get_fast_alignment
        self.C.get_best_alignment = get_best_alignment

    def uninstall(self):
        if not self.blackbox:
            self.C.get_first_window, self.A.take_until_limit = self.orig[0], self.orig[1]
        self.C.get_fast_alignment, self.C.get_best_alignment = self.orig[2], self.orig[3]

    def run(self, c, d, w):
        """Run get_fast_alignment under the iteration watchdog; returns (alignment or None, run record)."""
        pairs = [(a, u) for a, u in c]
        self.index = {p: i for i, p in enumerate(pairs)}
        self.end = [u.segment.end for _, u in pairs]
        self.iters = []
        self.limit = 3 * len(pairs) + 10       # far beyond what any progress-making loop needs: more iterations = stalled
        al, finished, why = None, 0, ""
        try:
            al = align.run_with_alarm(lambda: c.get_fast_alignment(d, w), 30)
            finished = 1 if al is not None else 0
            why = "" if al is not None else "timeout"
        except Stall:
            why = "stall"
        except Exception as ex:
            why = repr(ex)
        result = []
        if al is not None:
            for ua in al.unitary_alignments:
                for a, u in ua.n_tuple:
                    if u is not None:
                        result.append(self.index.get((a, u), -1))
        run = {"n": len(c.annotators), "w": int(w), "total": len(pairs), "iters": self.iters, "finished": finished,
               "result": result, "jobs": [], "est": [], "bb": 1 if self.blackbox else 0, "_why": why}
        self.iters = None
        return al, run


def judge_runs(runs, label="TraceFast"):
    path = scratch() / f"fast-{random.getrandbits(32):08x}.json"
    clean = [{k: v for k, v in r.items() if not k.startswith("_")} for r in runs]
    for r in clean:
        r["iters"] = [{k: v for k, v in it.items() if k != "xl"} for it in r["iters"]]
    for r in clean:
        r.setdefault("est", [])
        r.setdefault("bb", 0)
    path.write_text(json.dumps({"runs": clean, "log2": [int(round(1000 * math.log2(k))) for k in range(1, 4001)]}))
    res = tlc.run("TraceFast", "SPECIFICATION Spec\nCONSTRAINT Verdicts\n", label=label, env={"TRACE_FILE": str(path)},
                  workers=8, timeout=900, coverage=False)
    path.unlink(missing_ok=True)
    if res.errors or res.violated:
        raise MachineryError(f"TraceFast did not run cleanly: {res.errors} {res.violated}\n{res.out[-2000:]}")
    done, verdicts = set(), {}
    for p in res.printed:
        if "done" in p:
            done.add(p["done"] - 1)
        elif "verdict" in p:
            verdicts.setdefault(p["tid"] - 1, set()).add(p["verdict"])
    if done != set(range(len(runs))):
        raise MachineryError(f"TraceFast judged {len(done)} of {len(runs)} runs\n{res.out[-1500:]}")
    return res, verdicts


def l1(rep, tier):
    universes = [dict(na=2, w=1, smax=3, maxlen=3, maxu=2)]
    if tier == "thorough":
        universes += [dict(na=2, w=2, smax=3, maxlen=3, maxu=2), dict(na=3, w=1, smax=2, maxlen=2, maxu=1),
                      dict(na=2, w=1, smax=2, maxlen=3, maxu=3)]       # 3 units per annotator: 80 707 states, ~5 min (maxlen=4 did not finish in 40 min)
    else:
        universes += [dict(na=3, w=1, smax=1, maxlen=2, maxu=1)]
    universes += [dict(na=3, w=1, smax=1, maxlen=2, maxu=2)]       # uneven sizes incl. empty annotators: window "covers" via w*n >= total
    runs = []
    for u in universes:
        res = tlc.run("FastAlign", CFG.format(variant="none", emit="TRUE", **u), label=f"FastAlign {u}", workers=16,
                      timeout=2400, deadlock=False)
        if res.violated:
            raise MachineryError(f"FastAlign {u}: spec violates {res.violated}\n{res.trace_text[:2500]}")
        tlc.require(res, actions=["Iterate", "Finish"])
        rep.add_tlc(res)
        for p in res.printed:
            if "init" in p:
                p["u"] = u
                runs.append(p)
    r = tlc.run("FastAlign", CFG.format(variant="no_progress", emit="FALSE", na=2, w=1, smax=3, maxlen=3, maxu=2),
                label="mutant no_progress", workers=16, timeout=900, coverage=False)
    if "NoStall" not in r.violated and not any("Progress" in v for v in r.violated):
        raise MachineryError(f"mutant no_progress not rejected: {r.violated} {r.errors}")
    rep.extra.setdefault("mutants_killed", []).append("FastAlign:no_progress")
    return runs


def l2(rep, pa, probe, model_runs, rng, limit):
    from pyannote.core import Segment
    by_init = {}
    for p in model_runs:
        key = (json.dumps(p["init"]), p["u"]["w"])
        by_init.setdefault(key, {"init": p["init"], "w": p["u"]["w"], "costs": set(), "opt": p["opt"]})["costs"].add(p["cost"])
    items = list(by_init.values())
    if limit and len(items) > limit:
        items = rng.sample(items, limit)
    d = pa.PositionalSporadicDissimilarity()
    runs, metas = [], []
    for it in items:
        c = pa.Continuum()
        for ai, units in enumerate(it["init"]):
            c.add_annotator(f"a{ai}")
            for s, e in units:
                c.add(f"a{ai}", Segment(float(s), float(e)))
        al, run = probe.run(c, d, it["w"])
        runs.append(run)
        metas.append(it)
        rep.case(key=("L2", json.dumps(it["init"]), it["w"]))
        if al is None:
            rep.violation("fast.stall", {"layer": "L2", "continuum": it["init"], "w": it["w"], "why": run["_why"],
                                         "iterations": len(run["iters"])})
            continue
        n = len(it["init"])
        cost = float(al.disorder) * (c.num_units / n) * (n * (n - 1) // 2)
        allowed = sorted(x / L2SCALE for x in it["costs"])
        if not any(abs(cost - a) <= 2e-5 * max(1.0, a) for a in allowed):
            rep.violation("fast.cost_not_reachable_in_spec", {"layer": "L2", "continuum": it["init"], "w": it["w"],
                                                             "code_cost": cost, "spec_costs": allowed, "spec_opt": it["opt"] / L2SCALE})
    return runs, metas


def l3(rep, pa, probe, rng, count):
    runs, recs, metas = [], [], []
    while len(runs) < count:
        n_ann, mu = rng.choice([(2, 5), (2, 6), (3, 4), (3, 3), (4, 3), (5, 2), (2, 10), (3, 6)])
        c = align.random_continuum(pa, rng, n_ann, mu, unlabelled=rng.choice([0.0, 0.0, 1.0]), grid=rng.random() < 0.5)
        if not c:
            continue
        if rng.random() < 0.3:      # long overlapping units
            from pyannote.core import Segment
            a = rng.choice(list(c.annotators))
            lab = None if all(u.annotation is None for _, u in c) else rng.choice(align.LABELS)
            c.add(a, Segment(0.0, 28.0 + rng.random()), lab)
        kind, d = align.random_dissim(pa, rng, c)
        wmax = math.ceil(c.num_units / len(c.annotators)) + 1
        w = rng.randint(1, wmax)
        if len(runs) % 3 == 0:
            # the window covers the whole continuum exactly (w*n >= units), with an annotator that has no unit
            if len(c.annotators) >= 3:
                empty = list(c.annotators)[rng.randrange(len(c.annotators))]
                for u in list(c[empty]):
                    c.remove(empty, u)
            if not c:
                continue
            w = math.ceil(c.num_units / len(c.annotators))
        before = json.dumps(align.continuum_summary(c))
        al, run = probe.run(c, d, w)
        meta = {"dissim": kind, "w": w, "continuum": align.continuum_summary(c), "delta_empty": float(d.delta_empty),
                "alpha": getattr(d, "alpha", None), "beta": getattr(d, "beta", None)}
        runs.append(run)
        metas.append(meta)
        rep.case(key=("L3", before, kind, w))
        if json.dumps(align.continuum_summary(c)) != before:
            rep.violation("fast.input_modified", meta)
        if al is None:
            continue
        best = c.get_best_alignment(d)
        D, de_int = ar.observe_table(pa, c, d, align.R_SCALE)
        rec = ar.make_record(pa, c, d, al, D, de_int, align.R_SCALE, "partition", 8, search=False, band=16, rng=rng,
                             with_recompute=True, meta=dict(meta, family="fast"))
        n = len(c.annotators)
        rec["fastbest"] = ar.sc(best.disorder * (c.num_units / n), (n * (n - 1) // 2) * align.R_SCALE)
        rec["covering"] = 1 if w * n >= c.num_units else 0
        recs.append(rec)
    return runs, metas, recs


def covering_sparse_records(rep, pa, probe, rng, count):
    """'Equals the best alignment whenever the window covers the whole continuum' where it is most fragile: 4-5 annotators of
    whom only two have units (nested and long overlapping ones), and the SMALLEST covering window w = ceil(units / annotators) -
    a window sized by anything else than the number of annotators no longer holds everything."""
    from pyannote.core import Segment
    d = pa.PositionalSporadicDissimilarity()
    recs = []
    for _ in range(count):
        p = rng.choice([4, 5, 5])
        c = pa.Continuum()
        names = [f"a{i}" for i in range(p)]
        for nm in names:
            c.add_annotator(nm)
        for i in rng.sample(range(p), 2):
            for _ in range(rng.randint(3, 5)):
                s0 = rng.randint(0, 8)
                c.add(names[i], Segment(float(s0), float(s0 + rng.choice([1, 2, 3, 9, 14, 20]))), None)
        w = math.ceil(c.num_units / p)
        al, run = probe.run(c, d, w)
        meta = {"dissim": "pos", "w": w, "continuum": align.continuum_summary(c), "delta_empty": 1.0, "family": "fast, sparse covering window"}
        rep.case(key=("L3s", json.dumps(meta["continuum"]), w))
        if al is None:
            rep.violation("fast.stall", {"why": run["_why"], "meta": meta})
            continue
        best = c.get_best_alignment(d)
        D, de_int = ar.observe_table(pa, c, d, align.R_SCALE)
        rec = ar.make_record(pa, c, d, al, D, de_int, align.R_SCALE, "partition", 8, search=False, band=16, rng=rng,
                             with_recompute=False, meta=meta)
        rec["fastbest"] = ar.sc(best.disorder * (c.num_units / p), (p * (p - 1) // 2) * align.R_SCALE)
        rec["covering"] = 1
        recs.append(rec)
    return recs


def gamma_jobs(rep, pa, probe, rng, count):
    """Fast-mode gamma runs: every job logs (best_window_size of its continuum, algorithm used)."""
    runs = []
    for _ in range(count):
        n_ann, mu = rng.choice([(2, 12), (3, 6), (4, 20), (5, 12), (3, 50)])
        if mu >= 12 and n_ann >= 3:
            from .gammarun import big_continuum
            c = big_continuum(pa, rng)
        else:
            c = align.random_continuum(pa, rng, n_ann, mu, unlabelled=0.0, grid=True, allow_empty=False)
        if rng.random() < 0.4:
            # unevenly filled annotators (two dense, others sparse or empty): average and maximum unit counts differ widely
            from pyannote.core import Segment
            c = pa.Continuum()
            dense = rng.randint(10, 16)
            for a in range(rng.choice([3, 4, 5])):
                c.add_annotator(f"an{a}")
                k = dense if a < 2 else rng.choice([0, 0, 1, 2])
                t = 0
                for _ in range(k):
                    t += rng.randint(0, 2)
                    dur = rng.randint(1, 4)
                    c.add(f"an{a}", Segment(t, t + dur), rng.choice(align.LABELS))
                    t += dur
        d = pa.CombinedCategoricalDissimilarity(alpha=rng.choice([1, 3]), beta=1)
        np.random.seed(rng.randint(0, 10 ** 6))
        probe.jobs = []
        try:
            c.compute_gamma(d, n_samples=4, fast=True, sampler=rng.choice([None, pa.ShuffleContinuumSampler()]))
        except Exception as ex:
            rep.violation("fast.gamma_raises", {"exception": repr(ex), "continuum": align.continuum_summary(c)})
        jobs = probe.jobs
        probe.jobs = None
        # the inputs of the documented estimate, through public accessors, and what was decided
        est = []
        try:
            sw = c.get_first_window(d, 1)[0]
            est = [{"n": int(c.avg_num_annotations_per_annotator), "p": int(c.num_annotators), "s": int(sw.max_num_annotations_per_annotator),
                    "maxper": int(c.max_num_annotations_per_annotator), "bws": 0 if math.isinf(c.best_window_size) else int(c.best_window_size)}]
        except Exception:
            pass
        runs.append({"n": len(c.annotators), "w": 1, "total": 0, "iters": [], "finished": 1, "result": [], "jobs": jobs, "est": est,
                     "_why": "", "_bws": str(c.best_window_size)})
        rep.case(key=("gamma", json.dumps(jobs)))
    return runs


FAST_BEYOND = {"ObsRemaining", "WindowSubset", "HeadSize", "IterShrinks", "ChosenInWindow", "ChosenOnce", "IterBound", "ObsAllRemoved"}
FAST_CLAUSES = {"ObsPartition", "ObsSlots", "ObsNoForeign", "ObsHasRealUnit", "ObsUnitary", "ObsTotal", "ObsRecompute",
                "ObsFastGE", "ObsFastEq"}


def run(tier, rep):
    pa = import_repo()
    rng = random.Random(seed() * 1000003 + 10)
    quick = tier == "quick"
    rep.rule = ("L2: every initial continuum of FastAlign.tla's grid universes x window size; L3: random continua x "
                "dissimilarity x window size (distinct = continuum, dissimilarity kind, w); gamma: fast-mode runs")
    rep.assumptions += ["solver ties are explored nondeterministically in the spec; the code's result must be one of the reachable ones"]
    model_runs = l1(rep, tier)
    probe = Probe(pa)
    probe.install()
    try:
        runs2, metas2 = l2(rep, pa, probe, model_runs, rng, 500 if quick else 8000)
        runs3, metas3, recs = l3(rep, pa, probe, rng, 150 if quick else 3000)
        recs += covering_sparse_records(rep, pa, probe, rng, 90 if quick else 900)
        runsg = gamma_jobs(rep, pa, probe, rng, 10 if quick else 80)
    finally:
        probe.uninstall()
    runs = runs2 + runs3 + runsg
    metas = metas2 + metas3 + [{"gamma": True, "jobs": r["jobs"], "bws": r["_bws"]} for r in runsg]
    B = 2000
    for i in range(0, len(runs), B):
        res, verdicts = judge_runs(runs[i:i + B])
        rep.add_tlc(res, label=f"TraceFast batch {i // B}")
        for k, names in verdicts.items():
            r = runs[i + k]
            # HOW the windowed algorithm iterates (what it keeps in the window, what it removes per iteration) is the design
            # FastAlign.tla models; C10's statement is about termination and the result.  Departures from the modelled
            # iteration scheme alone are NOTEs; a run that did not return, or returned something else than a partition, an alarm
            mech = set(names) & FAST_BEYOND
            if mech:
                rep.beyond("fast." + "+".join(sorted(mech)), {"meta": metas[i + k], "iterations": r["iters"][:4]})
            names = set(names) - FAST_BEYOND
            if r["_why"] in ("stall", "timeout"):
                key = "fast.stall"
            elif names:
                key = "fast." + "+".join(sorted(names))
            else:
                continue
            rep.violation(key, {"clauses": sorted(names), "why": r["_why"], "meta": metas[i + k],
                                "iterations": r["iters"][:6], "result": r["result"]})
    rep.traces += len(runs)
    if recs:
        res, verdicts = ar.judge(recs, label="TraceAlign fast")
        rep.add_tlc(res)
        rep.traces += len(recs)
        for k, names in verdicts.items():
            bad = [v for v in names if v in FAST_CLAUSES]
            if bad:
                rep.violation("fast." + "+".join(bad), {"clauses": bad, "meta": recs[k]["_meta"],
                                                         "record": {x: y for x, y in recs[k].items() if x not in ("D", "_meta", "cands")}})
    rep.sample({"run": {k: v for k, v in runs3[0].items() if not k.startswith("_")}, "meta": metas3[0]} if runs3 else {})
    if runsg:
        rep.sample({"gamma_jobs": runsg[0]["jobs"], "bws": runsg[0]["_bws"]})
        rep.extra["gamma_job_algorithms"] = {a: sum(1 for r in runsg for j in r["jobs"] if j[1] == a) for a in ("best", "fast")}


def replay(path, rep):
    d = json.loads(open(path).read())
    print(json.dumps(d["detail"], indent=1)[:5000])
