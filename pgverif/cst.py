"""C19 - corpus shuffling yields valid corpora and each perturbation is confined.

L1  TLC: Cst.tla / MC_Cst - every environment choice of every perturbation on small references: never empty, positive
    durations, only reference categories, magnitude 0 = copy; confinement as action properties; mutants: false negatives
    without the security unit, split keeping the original unit.
L3  code -> spec: the real tool (real RNG) on seeded references: each single perturbation on a corpus from
    corpus_from_reference, and corpus_shuffle under every combination of flags x magnitudes x annotator counts/names x
    include_ref; TraceCst.tla judges validity and confinement from the corpus before / after.
"""
import itertools
import json
import random

import numpy as np

from . import tlc
from .common import MachineryError, import_repo, scratch, seed

CFG = """SPECIFICATION Spec
CONSTANTS
 Ref <- {ref}
 Cats = {{1, 2}}
 TMax = 4
 Mag = "{mag}"
 Variant = "{variant}"
 MaxSteps = {steps}
 MaxUnits = 3
CONSTRAINT Bound
INVARIANT NeverEmpty
INVARIANT PositiveDurations
INVARIANT OnlyRefCategories
INVARIANT MagnitudeZeroIsCopy
PROPERTY CatShuffleKeepsSegments
PROPERTY SplitKeepsDuration
PROPERTY SplitAddsOne
PROPERTY FalseNegOnlyRemoves
PROPERTY FalsePosOnlyAdds
PROPERTY ShiftKeepsCount
"""
FX = 1000000          # 1e-6 time units (times stay below ~200)
LABELS = ["Noun", "Verb", "adj", "prep"]


def l1(rep, tier):
    for ref in ("RefA", "RefB"):
        for mag in ("zero", "mid"):
            res = tlc.run("MC_Cst", CFG.format(ref=ref, mag=mag, variant="none", steps=2 if tier == "quick" else 3),
                          label=f"MC_Cst {ref} {mag}", workers=16, timeout=1800)
            if res.violated or res.errors:
                raise MachineryError(f"MC_Cst: {res.violated} {res.errors}\n{res.trace_text[:1500]}")
            if mag == "mid":
                tlc.require(res, actions=["Shift", "FalseNeg", "FalsePos", "CatShuffle", "Split"])
            rep.add_tlc(res)
    for variant, expect in (("falseneg_no_security", "NeverEmpty"), ("split_keeps_original", "SplitKeepsDuration")):
        r = tlc.run("MC_Cst", CFG.format(ref="RefB", mag="mid", variant=variant, steps=2), label=f"mutant {variant}", workers=8,
                    timeout=600, coverage=False)
        if not any(expect in v for v in r.violated):
            raise MachineryError(f"mutant {variant} not rejected: {r.violated} {r.errors}")
        rep.extra.setdefault("mutants_killed", []).append(f"Cst:{variant}")


def reference(pa, rng):
    from pyannote.core import Segment
    c = pa.Continuum()
    t = 0.0
    name = rng.choice(["ref", "Alex", "z_ref"])
    clicks = rng.random() < 0.25          # long turns plus very short clicks (far below 1 % of the mean length)
    for _ in range(rng.randint(1, 8)):
        t += rng.choice([0, 0.5, 1, 3])
        dur = rng.choice([0.5, 1, 2, 4.5, 7]) if not clicks else rng.choice([0.01, 0.02, 30, 45, 60])
        c.add(name, Segment(t, t + dur), rng.choice(LABELS[:rng.randint(1, 4)]))
        t += dur * rng.choice([0.5, 1, 1])
    if rng.random() < 0.3:
        # the same stretch of time annotated twice, with two categories (two units with one segment)
        for u in rng.sample(list(c[name]), min(len(c[name]), rng.randint(1, 2))):
            others = [x for x in LABELS if x != u.annotation]
            c.add(name, u.segment, rng.choice(others))
    return c, name


def fxv(x):
    return int(round(float(x) * FX))


def snapshot(c, annrank, catrank):
    return [[annrank[a], fxv(u.segment.start), fxv(u.segment.end), catrank.get(u.annotation, 0 if u.annotation is None else -1),
             int(min(round((u.segment.end - u.segment.start) * 1e9), 2e9))] for a, u in c]      # 5th: duration in ns (capped)


def build(pa, rng, count, rep):
    recs, metas = [], []
    ops = ["shift", "false_pos", "false_neg", "cat_shuffle", "split", "cat_shuffle_prevalence", "cat_shuffle_overlap"]
    flag_sets = list(itertools.product([False, True], repeat=5))
    it = 0
    prev = None
    while len(recs) < count:
        if prev is not None and rng.random() < 0.3:
            # the SAME tool object used again with its public `magnitude` attribute reassigned (as the repository's own
            # benchmark does): the new magnitude must take effect
            ref, refname, extra, cst = prev
            mag = rng.choice([0.0, 0.0, 0.5, 1.0])
            cst.magnitude = mag
            reused = True
        else:
            ref, refname = reference(pa, rng)
            mag = rng.choice([0.0, 0.0, 0.1, 0.3, 0.5, 0.8, 1.0])
            extra = rng.choice([None, None, ["extra_cat"]])
            cst = pa.CorpusShufflingTool(mag, ref, categories=extra)
            reused = False
        prev = (ref, refname, extra, cst)
        cats = sorted(set(ref.categories) | set(extra or []))
        catrank = {c: i + 1 for i, c in enumerate(cats)}
        refcats = [catrank[c] for c in cats]
        refunits = [[fxv(u.segment.start), fxv(u.segment.end), catrank[u.annotation]] for u in ref[refname]]
        new_anns = rng.choice([1, 2, 3, ["Martino", "Martingale"], ["b", "a", "c"]])
        np.random.seed(rng.randint(0, 2 ** 31 - 1))
        it += 1
        meta = {"magnitude": mag, "annotators": new_anns, "extra_categories": extra, "tool_reused_with_new_magnitude": reused,
                "reference": [[u.segment.start, u.segment.end, u.annotation] for u in ref[refname]]}
        base = {"refcats": refcats, "refunits": refunits, "nsplits": 0, "fallbacks": 0}
        if it % 2 == 0:
            # one perturbation on a fresh corpus
            op = ops[(it // 2) % len(ops)]
            corpus = cst.corpus_from_reference(new_anns)
            names = sorted(set(corpus.annotators))
            annrank = {a: i + 1 for i, a in enumerate(names)}
            if rng.random() < 0.4:
                # a two-step sequence: another perturbation first; the judged one starts from what that left behind
                first = rng.choice([o for o in ops[:5] if o != op])
                try:
                    {"shift": cst.shift_shuffle, "false_pos": cst.false_pos_shuffle, "false_neg": cst.false_neg_shuffle,
                     "cat_shuffle": cst.category_shuffle, "split": cst.splits_shuffle}[first](corpus)
                    meta["first_perturbation"] = first
                except Exception as ex:
                    rep.violation("cst.raises", dict(meta, op=first, exception=repr(ex)))
                    continue
            before = snapshot(corpus, annrank, catrank)
            anns_before = [annrank[a] for a in corpus.annotators]
            # probe (observation only): how often add() refused a piece during this perturbation - the split's
            # zero-length fallback is a named branch of the spec, not judged as a split
            refused = []
            orig_add = pa.Continuum.add

            def probing_add(self_c, annotator, segment, annotation=None):
                try:
                    return orig_add(self_c, annotator, segment, annotation)
                except ValueError:
                    refused.append(annotator)
                    raise
            pa.Continuum.add = probing_add
            try:
                if op == "cat_shuffle_prevalence":
                    cst.category_shuffle(corpus, prevalence=True)
                elif op == "cat_shuffle_overlap":
                    cst.category_shuffle(corpus, overlapping_fun=lambda a, b: 1.0 if a == b else 0.25 + 0.5 * (len(a) == len(b)), prevalence=rng.random() < 0.5)
                else:
                    {"shift": cst.shift_shuffle, "false_pos": cst.false_pos_shuffle, "false_neg": cst.false_neg_shuffle,
                     "cat_shuffle": cst.category_shuffle, "split": cst.splits_shuffle}[op](corpus)
            except Exception as ex:
                pa.Continuum.add = orig_add
                rep.violation("cst.raises", dict(meta, op=op, exception=repr(ex)))
                continue
            finally:
                pa.Continuum.add = orig_add
            after = snapshot(corpus, annrank, catrank)
            meta["op_variant"] = op
            meta["add_refusals"] = len(refused)
            op = "cat_shuffle" if op.startswith("cat_shuffle") else op
            rec = dict(base, op=op, before=before, after=after, anns_before=anns_before, anns_after=[annrank[a] for a in corpus.annotators],
                       expected_anns=anns_before, magzero=1 if (mag == 0.0) else 0)
            if op == "split":
                rec["nsplits"] = int(mag * cst.SPLIT_FACTOR * ref.avg_num_annotations_per_annotator)
                rec["fallbacks"] = len(refused)
            meta["op"] = op
        else:
            flags = flag_sets[(it // 2) % len(flag_sets)]
            kw = dict(zip(["shift", "false_pos", "false_neg", "split", "cat_shuffle"], flags))
            include_ref = rng.random() < 0.4
            if include_ref and not isinstance(new_anns, int) and refname in new_anns:
                include_ref = False
            try:
                corpus = cst.corpus_shuffle(new_anns, include_ref=include_ref, **kw)
            except Exception as ex:
                rep.violation("cst.raises", dict(meta, op="corpus_shuffle", flags=kw, exception=repr(ex)))
                continue
            want = [f"annotator_{i}" for i in range(new_anns)] if isinstance(new_anns, int) else list(new_anns)
            if include_ref:
                want = want + [refname]
            names = sorted(set(want) | set(corpus.annotators))
            annrank = {a: i + 1 for i, a in enumerate(names)}
            rec = dict(base, op="corpus_shuffle", before=[], after=snapshot(corpus, annrank, catrank), anns_before=[],
                       anns_after=[annrank[a] for a in corpus.annotators], expected_anns=sorted(annrank[a] for a in want),
                       magzero=1 if (mag == 0.0 and not include_ref) else 0)
            if mag == 0.0 and include_ref:
                rec["magzero"] = 1      # the reference annotator itself is also a copy
            meta.update(op="corpus_shuffle", flags=kw, include_ref=include_ref, result_annotators=list(corpus.annotators))
        recs.append(rec)
        metas.append(meta)
        rep.case(key=json.dumps([meta, rec["after"]], default=str))
    return recs, metas


def judge(recs):
    path = scratch() / f"cst-{random.getrandbits(32):08x}.json"
    path.write_text(json.dumps({"recs": recs}))
    res = tlc.run("TraceCst", "SPECIFICATION Spec\nCONSTRAINT Verdicts\n", label="TraceCst", env={"TRACE_FILE": str(path)},
                  workers=8, timeout=1200, coverage=False)
    path.unlink(missing_ok=True)
    if res.errors or res.violated:
        raise MachineryError(f"TraceCst did not run cleanly: {res.errors} {res.violated}\n{res.out[-2500:]}")
    done, verdicts = set(), {}
    for p in res.printed:
        if "done" in p:
            done.add(p["done"] - 1)
        elif "verdict" in p:
            verdicts.setdefault(p["tid"] - 1, set()).add(p["verdict"])
    if done != set(range(len(recs))):
        raise MachineryError("TraceCst did not judge every record")
    return res, verdicts


def run(tier, rep):
    pa = import_repo()
    rng = random.Random(seed() * 1000003 + 19)
    rep.rule = ("real tool runs: single perturbations on corpus_from_reference and corpus_shuffle under all 32 flag combinations x "
                "magnitudes {0, .1, .3, .5, .8, 1} x annotator counts / names x include_ref; distinct = (parameters, resulting corpus)")
    rep.assumptions += ["coincidences of independently drawn real numbers (two shifted units becoming equal) have probability 0 and are not modelled",
                        "a split whose pieces would be empty falls back to keeping the unit (named branch, reported, not judged as a split)"]
    l1(rep, tier)
    recs, metas = build(pa, rng, 400 if tier == "quick" else 8000, rep)
    res, verdicts = judge(recs)
    rep.add_tlc(res)
    rep.traces += len(recs)
    for k, names in verdicts.items():
        rep.violation("cst." + "+".join(sorted(names)) + "." + recs[k]["op"], {"clauses": sorted(names), "meta": metas[k],
                                                                               "before": recs[k]["before"][:12], "after": recs[k]["after"][:12],
                                                                               "anns_after": recs[k]["anns_after"], "expected_anns": recs[k]["expected_anns"]})
    rep.sample({"meta": metas[0], "record": {k: (v[:5] if isinstance(v, list) else v) for k, v in recs[0].items()}})
    rep.extra["records_by_op"] = {o: sum(1 for r in recs if r["op"] == o) for o in sorted({r["op"] for r in recs})}


def replay(path, rep):
    d = json.loads(open(path).read())
    print(json.dumps(d["detail"], indent=1)[:5000])
