"""Shared plumbing: seeds, scratch space, evidence files, known findings, violation reporting."""
import atexit
import json
import os
import shutil
import sys
import time
from pathlib import Path

VERIF = Path(__file__).resolve().parent.parent      # /verif, or a snapshot of it (vp run)
REPO = Path(os.environ.get("PGVERIF_REPO", "/repo"))   # the override is a development aid (seeded changes in scratch worktrees)
SPEC = VERIF / "spec"
EVIDENCE = Path(os.environ.get("PGVERIF_EVIDENCE", VERIF / "evidence"))
REPLAYS = Path(os.environ.get("PGVERIF_REPLAYS", VERIF / "replays"))
KNOWN = VERIF / "KNOWN_FINDINGS.txt"

_scratch = None


def seed() -> int:
    try:
        return int(os.environ.get("VERIF_SEED", "0"))
    except ValueError:
        return 0


def scratch() -> Path:
    """Per-process scratch directory outside /repo, /verif and /tmp; removed at exit."""
    global _scratch
    if _scratch is None:
        import tempfile
        for base in ("/var/tmp", os.environ.get("TMPDIR") or "", tempfile.gettempdir()):
            if not base:
                continue
            try:
                _scratch = Path(base) / f"pgverif-{os.getpid()}"
                _scratch.mkdir(parents=True, exist_ok=True)
                break
            except OSError:
                _scratch = None
        if _scratch is None:
            raise MachineryError("no writable scratch directory")
        atexit.register(lambda: shutil.rmtree(_scratch, ignore_errors=True))
    return _scratch


def breadcrumb(text: str):
    """Progress marker for the supervising process (see check.supervise): what the check was doing, should it be killed."""
    path = os.environ.get("PGVERIF_BREADCRUMB")
    if path:
        try:
            with open(path, "w") as f:
                f.write(text)
        except OSError:
            pass


def import_repo():
    """Import the library from /repo's working tree (never an installed copy)."""
    if str(REPO) in sys.path:
        sys.path.remove(str(REPO))
    sys.path.insert(0, str(REPO))
    import logging
    logging.disable(logging.WARNING)
    import pygamma_agreement as pa
    assert Path(pa.__file__).resolve().is_relative_to(REPO), pa.__file__
    return pa


class MachineryError(Exception):
    """Something in the verification machinery failed (exit 2, never a VIOLATION)."""


def load_findings():
    """KNOWN_FINDINGS.txt -> ({(property, key): text}, [fixed lines]).  Never written at run time."""
    finds, fixed = {}, []
    if KNOWN.exists():
        for line in KNOWN.read_text().splitlines():
            line = line.strip()
            if line.startswith("finding:"):
                toks = line[len("finding:"):].split()
                kv = dict(t.split("=", 1) for t in toks[:2] if "=" in t)
                if "property" in kv and "key" in kv:
                    finds[(kv["property"], kv["key"])] = " ".join(toks[2:])
            elif line.startswith("fixed:"):
                fixed.append(line)
    return finds, fixed


class Report:
    """Collects what one run of one property's check covered and found."""

    def __init__(self, pid: str, tier: str, level: str = "model_checking"):
        self.pid, self.tier, self.level = pid, tier, level
        self.t0 = time.time()
        self.states = 0
        self.transitions = 0
        self.traces = 0
        self.evaluations = 0
        self.distinct = set()
        self.distinct_count_extra = 0
        self.samples = []
        self.violations = []      # (key, detail)
        self.beyond_notes = []
        self.extra = {}
        self.assumptions = []
        self.rule = ""
        self.tlc_runs = []
        self.exhaustive = None

    # ---- coverage bookkeeping
    def add_tlc(self, res, label=None):
        self.states += res.distinct
        self.transitions += res.generated
        self.tlc_runs.append({"label": label or res.label, "distinct_states": res.distinct,
                              "states_generated": res.generated, "wall_s": round(res.wall, 2),
                              "mode": res.mode, "coverage_actions": res.action_counts})

    def case(self, key=None, nontrivial=True):
        self.evaluations += 1
        if self.evaluations % 25 == 1:
            breadcrumb(f"{self.pid} case #{self.evaluations}: {str(key)[:400]}")
        if nontrivial and key is not None:
            self.distinct.add(key if isinstance(key, (str, int, tuple)) else json.dumps(key, sort_keys=True, default=str))

    def sample(self, s, limit=6):
        if len(self.samples) < limit:
            self.samples.append(s)

    def violation(self, key: str, detail):
        self.violations.append((key, detail))

    def beyond(self, key: str, detail):
        """The code departs from the specification on behaviour the property's statement does not fix (the specification
        covers more than the listed properties): recorded in the evidence and printed as a NOTE, never an alarm."""
        self.beyond_notes.append((key, detail))

    # ---- finish: evidence + verdict lines + exit code
    def finish(self) -> int:
        finds, _ = load_findings()
        known, new = [], []
        for key, detail in self.violations:
            (known if (self.pid, key) in finds else new).append((key, detail))
        cov = {
            "states": self.states, "transitions": self.transitions,
            "traces_validated_against_impl": self.traces,
            "evaluations": self.evaluations,
            "distinct_nontrivial": len(self.distinct) + self.distinct_count_extra,
            "rule": self.rule, "samples": self.samples or ["(none)"],
            "tlc_runs": self.tlc_runs,
            "known_findings_hit": sorted({k for k, _ in known}),
        }
        if self.exhaustive is not None:
            cov["exhaustive"] = self.exhaustive
        cov.update(self.extra)
        cov["beyond_statement_deviations"] = [{"key": k, "detail": _short(d, 600)} for k, d in self.beyond_notes[:20]]
        for k in sorted({k for k, _ in self.beyond_notes}):
            print(f"NOTE: property={self.pid} beyond-statement deviation {k} ({sum(1 for x, _ in self.beyond_notes if x == k)} case(s)): "
                  f"the code departs from the specification where the property's statement fixes nothing; not an alarm")
        ev = {"property_id": self.pid, "tier": self.tier, "seed": seed(), "level": self.level,
              "coverage": cov, "assumptions": self.assumptions,
              "wall_s": round(time.time() - self.t0, 2), "violations": len(new)}
        EVIDENCE.mkdir(exist_ok=True)
        (EVIDENCE / f"{self.pid}.json").write_text(json.dumps(ev, indent=1, default=str) + "\n")
        seen = set()
        for key, detail in known:
            if key not in seen:
                seen.add(key)
                n = sum(1 for k, _ in known if k == key)
                print(f"KNOWN-FINDING: property={self.pid} key={key} ({n} hit(s)) {finds[(self.pid, key)]}")
        if new:
            REPLAYS.mkdir(exist_ok=True)
            shown = set()
            for i, (key, detail) in enumerate(new):
                if key in shown and i > 20:
                    continue
                shown.add(key)
                path = REPLAYS / f"{self.pid}-{len(shown)}-{i}.json"
                path.write_text(json.dumps({"property": self.pid, "key": key, "detail": detail},
                                           indent=1, default=str) + "\n")
                if i < 10:
                    print(f"VIOLATION property={self.pid} replay={path}  # {key}: {_short(detail)}")
            print(f"{self.pid}: {len(new)} violation(s)")
            return 1
        print(f"{self.pid}: ok  tier={self.tier} states={self.states} transitions={self.transitions} "
              f"traces={self.traces} evaluations={self.evaluations} wall={ev['wall_s']}s")
        return 0


def _short(d, n=300):
    s = json.dumps(d, default=str)
    return s if len(s) <= n else s[:n] + "..."
