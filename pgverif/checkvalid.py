"""C17 - alignment validity checks accept exactly partitions and covers.

L1  TLC: Check.tla - outcome of both checks as a function of the bag of unitary alignments; lemmas: independent of the
    order, a partition is a cover, "ok" iff IsPartition (Align.tla).
L2  spec -> code: TLC enumerates EVERY sequence of <= MaxT unitary alignments over the units of small continua (so
    every order of every bag: valid ones and ones with dropped / duplicated / moved units) with the expected outcome;
    each is built as a real Alignment / SoftAlignment and presented to check(), check(continuum) and both constructors
    with check_validity=True; the outcome class must be the spec's.
L3  random continua up to 4x5 with one or two mutations of a valid alignment, judged by TraceAlign's ObsPartition/ObsCover
    against the library's own verdict.
"""
import json
import random

from . import align
from . import alignrec as ar
from . import tlc
from .common import MachineryError, import_repo, seed

CFG = """SPECIFICATION Spec
CONSTANTS
 SizeChoices <- {sizes}
 MaxT = {maxt}
 Emit = TRUE
CONSTRAINT EmitCase
INVARIANT OrderFree
INVARIANT PartitionIsCover
INVARIANT PartitionIffIsPartition
"""


def outcome(fn):
    try:
        fn()
        return "ok"
    except Exception as ex:
        return type(ex).__name__


def build_alignment(pa, cls, c, units, anns, tuples, attach=True, check=False, order_shuffle=None, disorder=None):
    uas = []
    for t in tuples:
        slots = [(anns[a], units[a][i] if i < len(units[a]) else None) for a, i in enumerate(t)]
        if order_shuffle:
            order_shuffle.shuffle(slots)
        uas.append(pa.UnitaryAlignment(slots))
    if disorder is not None:
        return cls(uas, c if attach else None, check_validity=check, disorder=disorder)
    return cls(uas, c if attach else None, check_validity=check)


def l2(rep, pa, tier, rng):
    from pyannote.core import Segment
    res = tlc.run("Check", CFG.format(sizes="SmallSizes" if tier == "quick" else "MoreSizes", maxt=3 if tier == "quick" else 4),
                  label="Check enumeration", workers=16, timeout=1800, heap="8g")
    if res.violated or res.errors:
        raise MachineryError(f"Check: {res.violated} {res.errors}\n{res.trace_text[:1500]}")
    rep.add_tlc(res)
    cases = [p for p in res.printed if "al" in p]
    if not cases:
        raise MachineryError("Check.tla emitted no case")
    conts = {}
    n = 0
    # the cases of one continuum are presented one after the other against the SAME continuum object (valid and invalid ones
    # interleaved as TLC found them): a verdict must not depend on what was checked against that continuum before
    order = sorted(range(len(cases)), key=lambda k: (tuple(cases[k]["sizes"]), k))
    for variant in ("twins", "distinct", "far"):
      for p in (cases[k] for k in order):
        # "twins": every annotator has the same units (equal segment and label) - equal units must still be told apart by
        # their annotator; "distinct": labels differ across annotators; "far": one label, units 20 ms apart ten hours into
        # a recording (they differ from the 7th significant digit on)
        sizes = tuple(p["sizes"])
        if (sizes, variant) not in conts:
            c = pa.Continuum()
            anns = [f"v{a}" for a in range(len(sizes))]
            for a, k in enumerate(sizes):
                c.add_annotator(anns[a])
                for i in range(k):
                    lab = ["x", None, "y"][i % 3] if variant == "twins" else (f"l{a}{i}" if variant == "distinct" else "x")
                    seg = Segment(float(3 * i), float(3 * i + 2)) if variant != "far" else Segment(36000.0 + 0.02 * i, 36000.01 + 0.02 * i)
                    c.add(anns[a], seg, lab)
            # the same continuum with one more unit: an alignment may carry one continuum and be checked against another
            bigger = c.copy()
            bigger.add(anns[0], Segment(90000.0, 90001.0), "x")
            conts[(sizes, variant)] = (c, anns, ar.units_by_annotator(c), bigger)
        c, anns, units, bigger = conts[(sizes, variant)]
        tuples = p["al"]
        n += 1
        rep.case(key=json.dumps([sizes, tuples, variant]), nontrivial=len(tuples) > 1)
        for cls, want, name in ((pa.Alignment, p["partition"], "Alignment"), (pa.alignment.SoftAlignment, p["cover"], "SoftAlignment")):
            got = {
                "check()": outcome(lambda: build_alignment(pa, cls, c, units, anns, tuples).check()),
                "check(continuum)": outcome(lambda: build_alignment(pa, cls, c, units, anns, tuples, attach=False).check(c)),
                "constructor(check_validity=True)": outcome(lambda: build_alignment(pa, cls, c, units, anns, tuples, check=True)),
                "check() with shuffled slots": outcome(lambda: build_alignment(pa, cls, c, units, anns, tuples, order_shuffle=rng).check()),
                "constructor(check_validity=True, disorder=0.0)": outcome(lambda: build_alignment(pa, cls, c, units, anns, tuples, check=True, disorder=0.0)),
            }
            # the continuum GIVEN to check() is the one checked against, whatever continuum the alignment carries
            al_big = build_alignment(pa, cls, bigger, units, anns, tuples)
            got["check(continuum) on an alignment carrying a bigger continuum"] = outcome(lambda: al_big.check(c))
            g2 = outcome(lambda: build_alignment(pa, cls, c, units, anns, tuples).check(bigger))
            if g2 != "SetPartitionError":
                rep.violation(f"check.{name}.check_other", {"class": name, "how": "check(bigger continuum) on an alignment carrying the smaller one: a unit is missing",
                                                            "sizes": sizes, "tuples": tuples, "continuum_variant": variant,
                                                            "spec_outcome": "SetPartitionError", "code_outcome": g2})
            for how, g in got.items():
                if g != want:
                    rep.violation(f"check.{name}.{how.split('(')[0]}", {"class": name, "how": how, "sizes": sizes, "tuples": tuples, "continuum_variant": variant,
                                                                        "spec_outcome": want, "code_outcome": g})
    rep.traces += n
    rep.extra["l2_cases"] = n
    rep.sample({"layer": "L2", "case": cases[len(cases) // 2]})


def l3(rep, pa, rng, count):
    """Mutated valid alignments of larger random continua: the library's verdict vs TLC's (TraceAlign ObsPartition/ObsCover)."""
    recs, lib = [], []
    while len(recs) < count:
        c = align.random_continuum(pa, rng, rng.randint(2, 4), 5, unlabelled=0.2)
        if not c or c.num_units < 2:
            continue
        d = pa.PositionalSporadicDissimilarity()
        al = c.get_best_alignment(d)
        tuples = [list(ua.n_tuple) for ua in al.unitary_alignments]
        for _ in range(rng.randint(0, 2)):
            kind = rng.choice(["drop", "dup_tuple", "dup_unit", "move", "none", "reslot", "reslot", "foreign_extra"])
            if kind == "foreign_extra":
                # one more unitary alignment holding a unit in ANOTHER annotator's slot, everything else untouched: every
                # (annotator, unit) of the continuum still occurs exactly once - both checks must succeed
                t = rng.choice(tuples)
                reals = [(i, sl) for i, sl in enumerate(t) if sl[1] is not None]
                if reals and len(t) >= 2:
                    i, sl = rng.choice(reals)
                    j = rng.choice([k for k in range(len(t)) if k != i])
                    new = [(a, None) for a, _ in t]
                    new[j] = (t[j][0], sl[1])
                    tuples.append(new)
            if kind == "reslot":
                # a unit placed in ANOTHER annotator's slot (swapped with what was there): its own (annotator, unit) goes missing
                t = rng.choice(tuples)
                if len(t) >= 2:
                    i, j = rng.sample(range(len(t)), 2)
                    if t[i][1] is not None and t[i][1] != t[j][1]:
                        t[i], t[j] = (t[i][0], t[j][1]), (t[j][0], t[i][1])
            if kind == "drop" and len(tuples) > 1:
                tuples.pop(rng.randrange(len(tuples)))
            elif kind == "dup_tuple":
                tuples.append(list(rng.choice(tuples)))
            elif kind == "dup_unit":
                t = rng.choice(tuples)
                reals = [(i, s) for i, s in enumerate(t) if s[1] is not None]
                if reals:
                    i, s = rng.choice(reals)
                    new = [(a, None) for a, _ in t]
                    new[i] = s
                    tuples.append(new)
            elif kind == "move":
                t = rng.choice(tuples)
                reals = [i for i, s in enumerate(t) if s[1] is not None]
                if len(reals) > 1:
                    i = rng.choice(reals)
                    s = t[i]
                    t[i] = (s[0], None)
                    new = [(a, None) for a, _ in t]
                    new[i] = s
                    tuples.append(new)
        rng.shuffle(tuples)
        tuples = [t for t in tuples if any(u is not None for _, u in t)]
        # a pair FOREIGN to the continuum (a unit under another annotator) occurring twice is outside the statement, which
        # speaks of the continuum's own (annotator, unit) pairs only: not generated
        own = {(a, u) for a, u in c}
        foreign_pairs = [(a, u) for t in tuples for a, u in t if u is not None and (a, u) not in own]
        if len(foreign_pairs) != len(set(foreign_pairs)):
            continue
        if not tuples:
            continue
        for cls, mode in ((pa.Alignment, "partition"), (pa.alignment.SoftAlignment, "soft")):
            obj = cls([pa.UnitaryAlignment(list(t)) for t in tuples], c)
            verdict = outcome(obj.check)
            D, de_int = ar.observe_table(pa, c, d, align.R_SCALE, cap_factor=1 << 21)
            obj.compute_disorder(d)
            rec = ar.make_record(pa, c, d, obj, D, de_int, align.R_SCALE, mode, 8, search=False, with_recompute=False,
                                 meta={"continuum": align.continuum_summary(c), "mode": mode})
            recs.append(rec)
            lib.append(verdict)
            rep.case(key=json.dumps([rec["sizes"], rec["tuples"], mode]))
    res, verdicts = ar.judge(recs, label="TraceAlign C17")
    rep.add_tlc(res)
    rep.traces += len(recs)
    for i, r in enumerate(recs):
        bad = set(verdicts.get(i, []))
        # the statement, literally: success iff every (annotator, unit) OF THE CONTINUUM occurs exactly once / at least once;
        # a unit that also sits in another annotator's slot is not a pair of the continuum and changes nothing
        spec_ok = ("ObsPartition" not in bad) if r["mode"] == "partition" else ("ObsCover" not in bad)
        foreign = any(slot[1] == -2 for t in r["tuples"] for slot in t)
        # with a unit sitting in another annotator's slot the statement only fixes success / failure (the soft check fails with
        # KeyError there); otherwise the failure must be the set-partition error
        if spec_ok != (lib[i] == "ok") or (not foreign and lib[i] not in ("ok", "SetPartitionError")):
            rep.violation("check.random." + r["mode"], {"mode": r["mode"], "tuples": r["tuples"], "sizes": r["sizes"],
                                                        "spec_says_valid": spec_ok, "library_outcome": lib[i], "meta": r["_meta"]})
    rep.extra["l3_valid_vs_invalid"] = [sum(1 for x in lib if x == "ok"), sum(1 for x in lib if x != "ok")]


def run(tier, rep):
    pa = import_repo()
    rng = random.Random(seed() * 1000003 + 17)
    rep.rule = ("L2: every sequence of <= MaxT unitary alignments over the units of each small continuum (all bags in all orders); "
                "L3: mutated valid alignments of random continua; non-trivial = more than one unitary alignment")
    rep.assumptions += ["candidate alignments range over the continuum's own (annotator, unit) pairs; foreign units are not generated"]
    l2(rep, pa, tier, rng)
    l3(rep, pa, rng, 150 if tier == "quick" else 3000)
    rep.exhaustive = True


def replay(path, rep):
    d = json.loads(open(path).read())
    print(json.dumps(d["detail"], indent=1)[:4000])
