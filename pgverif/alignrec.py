"""Recording alignment computations of the real code as records for TraceAlign.tla."""
import contextlib
import json
import random
import sys
import threading

import numpy as np

from . import tlc
from .common import MachineryError, scratch

_solver_log = []
_solver_lock = threading.Lock()
_installed = [False]
FAIL_CBC = [False]           # fault injection: CBC raises SolverError at run time (the library must fall back to GLPK)


def install_solver_probe():
    """Wrap cvxpy.Problem.solve (harness side) so that the solver actually requested is logged."""
    if _installed[0]:
        return
    import cvxpy as cp
    orig = cp.Problem.solve

    def solve(self, *a, **kw):
        if FAIL_CBC[0] and str(kw.get("solver")) == "CBC":
            with _solver_lock:
                _solver_log.append((threading.get_ident(), "CBC(failed)"))
            raise cp.SolverError("injected by the harness: CBC fails at run time")
        try:
            return orig(self, *a, **kw)
        finally:
            with _solver_lock:
                _solver_log.append((threading.get_ident(), str(kw.get("solver"))))
    cp.Problem.solve = solve
    _installed[0] = True


@contextlib.contextmanager
def backend(name):
    """'CBC': as installed.  'GLPK_MI': make the library's own `import cylp` fail -> its fallback branch.
    'CBC_FAILS': cylp imports, but the CBC solve raises cvxpy's SolverError (injected in the harness's probe)."""
    saved = sys.modules.get("cylp", "absent")
    saved_sub = {k: v for k, v in sys.modules.items() if k.startswith("cylp.")}
    if name == "GLPK_MI":
        sys.modules["cylp"] = None
    FAIL_CBC[0] = (name == "CBC_FAILS")
    try:
        yield
    finally:
        FAIL_CBC[0] = False
        if name == "GLPK_MI":
            if saved == "absent":
                sys.modules.pop("cylp", None)
            else:
                sys.modules["cylp"] = saved
            sys.modules.update(saved_sub)


def last_solver():
    me = threading.get_ident()
    with _solver_lock:
        mine = [s for t, s in _solver_log if t == me]
        del _solver_log[:]
    return mine[-1] if mine else "none"


# ------------------------------------------------------------------ instances
def units_by_annotator(c):
    return [[u for u in c[a]] for a in c.annotators]


def realise_table(pa, inst, scale):
    """Abstract instance (sizes, D, de as scaled ints) -> real continuum + dissimilarity computing exactly D.
    Every unit gets its own category; the table becomes a PrecomputedCategoricalDissimilarity matrix."""
    from pyannote.core import Segment
    from sortedcontainers import SortedSet
    n, sizes, D, de = inst["n"], inst["sizes"], inst["D"], inst["de"]
    c = pa.Continuum()
    names = [f"ann{a + 1}" for a in range(n)]
    cat = {}
    for a in range(n):
        c.add_annotator(names[a])
        for i in range(sizes[a]):
            cat[(a, i)] = f"c{a + 1}_{i:03d}"
            c.add(names[a], Segment(10.0 * i, 10.0 * i + 1.0), cat[(a, i)])
    cats = SortedSet(cat.values())
    idx = {name: k for k, name in enumerate(cats)}
    m = np.zeros((len(cats), len(cats)), dtype=np.float32)
    for a in range(n):
        for b in range(a + 1, n):
            for i in range(sizes[a]):
                for j in range(sizes[b]):
                    v = D[a][b][i][j] / de
                    m[idx[cat[(a, i)]], idx[cat[(b, j)]]] = v
                    m[idx[cat[(b, j)]], idx[cat[(a, i)]]] = v
    d = pa.PrecomputedCategoricalDissimilarity(cats, m, delta_empty=de / scale)
    return c, d


def realise_batch(pa, insts, scale, group=40):
    """realise_table for many instances with FEW dissimilarity objects: the instances of a group (same delta_empty) share one
    precomputed matrix, every unit of every instance having its own category.  Each dissimilarity object costs a JIT
    compilation; ten thousand of them in one process exhaust numba's code memory (the interpreter then dies on SIGSEGV)."""
    from pyannote.core import Segment
    from sortedcontainers import SortedSet
    out = [None] * len(insts)
    by_de = {}
    for k, inst in enumerate(insts):
        by_de.setdefault(inst["de"], []).append(k)
    for de, idxs in by_de.items():
        for g in range(0, len(idxs), group):
            part = idxs[g:g + group]
            names = {}
            for k in part:
                inst = insts[k]
                for a in range(inst["n"]):
                    for i in range(inst["sizes"][a]):
                        names[(k, a, i)] = f"k{k:05d}c{a + 1}_{i:03d}"
            cats = SortedSet(names.values())
            if not cats:
                cats = SortedSet(["none"])
            idx = {name: j for j, name in enumerate(cats)}
            m = np.ones((len(cats), len(cats)), dtype=np.float32)
            np.fill_diagonal(m, 0.0)
            for k in part:
                inst = insts[k]
                for a in range(inst["n"]):
                    for b in range(a + 1, inst["n"]):
                        for i in range(inst["sizes"][a]):
                            for j in range(inst["sizes"][b]):
                                v = inst["D"][a][b][i][j] / de
                                x, y = idx[names[(k, a, i)]], idx[names[(k, b, j)]]
                                m[x, y] = m[y, x] = v
            d = pa.PrecomputedCategoricalDissimilarity(cats, m, delta_empty=de / scale)
            for k in part:
                inst = insts[k]
                c = pa.Continuum()
                for a in range(inst["n"]):
                    c.add_annotator(f"ann{a + 1}")
                    for i in range(inst["sizes"][a]):
                        c.add(f"ann{a + 1}", Segment(10.0 * i, 10.0 * i + 1.0), names[(k, a, i)])
                out[k] = (c, d)
    return out


def observe_table(pa, c, d, scale, cap_factor=None):
    """The pairwise table as the compiled form computes it (the value used inside alignment computations)."""
    anns = list(c.annotators)
    units = units_by_annotator(c)
    n = len(anns)
    D = [[[] for _ in range(n)] for _ in range(n)]
    de = float(d.delta_empty)
    cap = int(round((n * (n - 1) // 2) * n * de * scale)) + scale if cap_factor is None else cap_factor
    for a in range(n):
        for b in range(a + 1, n):
            D[a][b] = [[0] * len(units[b]) for _ in range(len(units[a]))]
            uas, where = [], []
            for i, u in enumerate(units[a]):
                for j, v in enumerate(units[b]):
                    uas.append(pa.UnitaryAlignment([(anns[a], u), (anns[b], v)]))
                    where.append((i, j))
            if uas:
                vals = d.compute_disorder(pa.Alignment(uas))       # 2 annotators: C(2,2) = 1, i.e. d_mat itself
                for (i, j), v in zip(where, vals):
                    D[a][b][i][j] = min(cap, int(round(float(v) * scale)))
    return D, int(round(de * scale))


def tuple_slots(c, ua, units=None):
    anns = list(c.annotators)
    units = units or units_by_annotator(c)
    slots = []
    for annotator, u in ua.n_tuple:
        r = anns.index(annotator) + 1 if annotator in anns else 0
        if u is None:
            slots.append([r, -1])
        elif r and u in units[r - 1]:
            slots.append([r, units[r - 1].index(u)])
        else:
            slots.append([r, -2])
    return slots


def sc(x, k):
    """float -> scaled integer; garbage (NaN, inf, beyond 32 bits) becomes a value no clause can accept."""
    v = float(x) * k
    if v != v or abs(v) > 2e9:
        return -999999999
    return int(round(v))


_OTHER_DISSIM = {}


def make_record(pa, c, d, al, D, de_int, scale, mode, tol, *, search, band=0, want_backend="", got_backend="",
                modelopt=-1, with_recompute=True, cands=None, bestcost=-1, rng=None, meta=None):
    """One TraceAlign record for alignment `al` of continuum `c` under dissimilarity `d`."""
    anns = list(c.annotators)
    n = len(anns)
    units = units_by_annotator(c)
    sizes = [len(u) for u in units]
    U = sum(sizes)
    c2n = n * (n - 1) // 2
    k = c2n * scale
    uas = list(al.unitary_alignments)
    tuples = [tuple_slots(c, ua, units) for ua in uas]
    ud = []
    for ua in uas:
        try:
            ud.append(sc(ua.disorder, k))
        except ValueError:
            ud.append(-1)
    tot = sc(al.disorder * (U / n), k)
    rud, sud, pud, rtot = [-1] * len(uas), [-1] * len(uas), [-1] * len(uas), -1
    if with_recompute:
        cls = type(al)
        fresh = cls([pa.UnitaryAlignment(list(ua.n_tuple)) for ua in uas], c)
        # the disorder of this very object is first computed under ANOTHER dissimilarity, then under d: what is judged is the
        # second computation (nothing of the first may be remembered)
        try:
            if "other" not in _OTHER_DISSIM:       # one object for the whole run (every new one is a JIT compilation)
                _OTHER_DISSIM["other"] = pa.PositionalSporadicDissimilarity(delta_empty=0.25)
            fresh.compute_disorder(_OTHER_DISSIM["other"])
        except Exception:
            pass
        rtot = sc(fresh.compute_disorder(d) * (U / n), k)
        rud = [sc(x.disorder, k) for x in fresh.unitary_alignments]
        rng = rng or random.Random(0)
        for i, ua in enumerate(uas):
            if i < 6:
                sud[i] = sc(pa.UnitaryAlignment(list(ua.n_tuple)).compute_disorder(d), k)
                perm = list(ua.n_tuple)
                rng.shuffle(perm)
                one = pa.Alignment([pa.UnitaryAlignment(perm)])
                pud[i] = sc(d.compute_disorder(one)[0], k)
    rec = {"n": n, "sizes": sizes, "D": D, "de": de_int, "tol": tol, "band": band, "mode": mode,
           "tuples": tuples, "ud": ud, "tot": tot, "rud": rud, "rtot": rtot, "sud": sud, "pud": pud,
           "hascands": 0, "cands": [], "backend": got_backend, "wantbackend": want_backend,
           "modelopt": modelopt, "search": 1 if search else 0, "bestcost": bestcost, "fastbest": -1, "covering": 0, "othercost": -1}
    if cands is not None:
        dis, tup = cands
        rec["hascands"] = 1
        rec["cands"] = [[[int(x) for x in t], sc(v, k)] for t, v in zip(tup, dis)]
        # shape of what valid_alignments() returned: one column per annotator, every entry a unit index of that annotator or
        # its "empty" index, as many disorders as tuples - anything else cannot even be read as a candidate list
        ok_shape = len(tup) == len(dis) and all(len(t) == n and all(0 <= int(t[a]) <= sizes[a] for a in range(n)) for t in tup)
        if not ok_shape:
            rec["cands"], rec["hascands"] = [], 0
            rec["_malformed"] = {"what": "valid_alignments() returned tuples that are not one-slot-per-annotator candidate tuples",
                                 "n_annotators": n, "sizes": sizes, "first_rows": [[int(x) for x in t] for t in list(tup)[:5]],
                                 "n_tuples": int(len(tup)), "n_disorders": int(len(dis))}
    rec["_meta"] = meta or {}
    return rec


def judge(records, label="TraceAlign", timeout=1200, workers=16):
    """Run TraceAlign.tla over the records.  Returns (tlc result, {record index -> [failing clauses]})."""
    if not records:
        raise MachineryError("no alignment records to judge")
    path = scratch() / f"align-{random.getrandbits(32):08x}.json"
    clean = [{k: v for k, v in r.items() if not k.startswith("_")} for r in records]
    path.write_text(json.dumps({"recs": clean}))
    res = tlc.run("TraceAlign", "SPECIFICATION Spec\nCONSTRAINT Verdicts\n", label=label,
                  env={"TRACE_FILE": str(path)}, workers=workers, timeout=timeout, coverage=False)
    path.unlink(missing_ok=True)
    if res.errors or res.violated:
        raise MachineryError(f"TraceAlign did not run cleanly: {res.errors} {res.violated}\n{res.out[-2500:]}")
    done, verdicts = set(), {}
    for p in res.printed:
        if "done" in p:
            done.add(p["done"] - 1)
        elif "verdict" in p:
            verdicts.setdefault(p["tid"] - 1, set()).add(p["verdict"])
    if done != set(range(len(records))):
        raise MachineryError(f"TraceAlign judged {len(done)} of {len(records)} records\n{res.out[-1500:]}")
    return res, {i: sorted(v) for i, v in verdicts.items()}
