"""Continuum container: projection of real objects, rank encoding, trace validation (C13, C14)."""
import json
import math
import random

from . import tlc
from .common import MachineryError, scratch

INF_BWS = 0

# argument kinds per operation: o=object id, a=annotator, t=time, l=label, i=int
ARGK = {
    "new": "o", "add": "oattl", "add_annotator": "oa", "remove": "oattl", "copy": "oo", "copy_flush": "oo",
    "merge_in_place": "oo", "merge_new": "ooo", "plus": "ooo", "reset_bounds": "o", "drop": "o",
    "compute": "", "fast_gamma": "oi", "derive": "o", "newaux": "i", "add_timeline": "oa", "add_annotation": "oa",
}


# clauses of TraceContinuum.tla beyond the statements of C13 / C14 (which name annotators, units, categories and bounds):
# best_window_size under container operations and the derived statistics (max units per annotator, average number of units per
# annotator, category weights) are modelled; a departure is a NOTE
BEYOND = {"ObsBws", "ObsDerived"}


def bws_of(c):
    w = c.best_window_size
    return INF_BWS if (isinstance(w, float) and math.isinf(w)) else int(w)


def proj(c):
    """Real Continuum -> raw projection, read through the public API.  Total: an accessor that raises is noted under
    "problems" (and a neutral value of the right type takes its place) - the library contradicting itself while it is being
    observed (e.g. an annotator listed by .annotators that continuum[annotator] does not know) is a finding, not a harness crash."""
    problems = []

    def safe(name, fn, default):
        try:
            return fn()
        except Exception as ex:
            problems.append(f"{name} raised {ex!r}")
            return default
    anns = safe("annotators", lambda: list(c.annotators), [])
    units = safe("iteration", lambda: [[a, float(u.segment.start), float(u.segment.end), u.annotation] for a, u in c], [])
    views = []
    for a in anns:
        views.append([a, safe(f"continuum[{a!r}]", lambda: [[a, float(u.segment.start), float(u.segment.end), u.annotation] for u in c[a]], [])])
    lo, hi = safe("bounds", lambda: tuple(float(x) for x in c.bounds), (0.0, 0.0))
    # derived observables (beyond the listed properties): only where they are defined (labelled units, at least one unit)
    weights, wok = [], 0
    if units and all(u[3] is not None for u in units):
        try:
            weights = [[k, int(round(float(v) * 1000000))] for k, v in c.category_weights.items()]
            wok = 1
        except Exception:
            wok = 2
    def soft(fn, default):       # accessors beyond the statements: a failure there is not an observation problem
        try:
            return fn()
        except Exception:
            return default
    avg = soft(lambda: float(c.avg_num_annotations_per_annotator), None) if anns else None
    avgok = 1 if (avg is not None and avg == avg and abs(avg) < 2000) else 0
    derived = {"avgok": avgok, "avgnum": int(round(avg * 1000000)) if avgok else 0,
               "nann": safe("num_annotators", lambda: int(c.num_annotators), -1),
               "maxper": soft(lambda: int(c.max_num_annotations_per_annotator), -1), "weights": weights, "wok": wok}
    return {"derived": derived, "ann": anns, "units": units, "cats": safe("categories", lambda: list(c.categories), []), "lo": float(lo), "hi": float(hi),
            "n": safe("num_units", lambda: int(c.num_units), -1), "len": safe("len()", lambda: len(c), -1), "bool": safe("bool()", lambda: 1 if c else 0, -1),
            "bws": safe("best_window_size", lambda: bws_of(c), INF_BWS), "views": views, "problems": problems}


def observation_problems(trace):
    """First event of a recorded history at which reading a continuum through its public accessors raised: (index, problems)."""
    for l, e in enumerate(trace):
        for o, p in e.get("obs", []):
            if p.get("problems"):
                return l, [f"object {o}: {x}" for x in p["problems"]]
    return None


def observe(objs):
    ids = sorted(objs)
    obs = [[o, proj(objs[o])] for o in ids]
    eq = []
    for i in ids:
        for j in ids:
            try:
                eq.append([i, j, 1 if objs[i] == objs[j] else 0, 1 if objs[i] != objs[j] else 0])
            except Exception:
                eq.append([i, j, -1, -1])      # == raised: judged as "neither equal nor different" (fails ObsEq)
    return obs, eq


class Encoder:
    """Rank-encodes floats and strings of a whole batch of traces (order-isomorphic)."""

    def __init__(self, traces):
        times, anns, labs = {0.0}, set(), set()

        def visit_unit(u):
            anns.add(u[0]); times.add(u[1]); times.add(u[2])
            if u[3] is not None:
                labs.add(u[3])
        for tr in traces:
            for e in tr:
                for k, v in zip(ARGK[e["op"]], e["args"]):
                    if k == "a":
                        anns.add(v)
                    elif k == "t":
                        times.add(float(v))
                    elif k == "l" and v is not None:
                        labs.add(v)
                for it in e.get("items", []):
                    times.add(float(it[0])); times.add(float(it[1]))
                    if it[2] is not None:
                        labs.add(it[2])
                for _, p in e["obs"]:
                    anns.update(p["ann"]); labs.update(p["cats"]); times.add(p["lo"]); times.add(p["hi"])
                    for u in p["units"]:
                        visit_unit(u)
                    for _, vs in p["views"]:
                        for u in vs:
                            visit_unit(u)
        self.times = {t: i for i, t in enumerate(sorted(times))}
        self.anns = {a: i + 1 for i, a in enumerate(sorted(anns))}
        self.labs = {s: i + 1 for i, s in enumerate(sorted(labs))}

    def t(self, x): return self.times[float(x)]
    def a(self, x): return self.anns[x]
    def l(self, x): return 0 if x is None else self.labs[x]
    def unit(self, u): return [self.a(u[0]), self.t(u[1]), self.t(u[2]), self.l(u[3])]

    def proj(self, p):
        return {"ann": [self.a(x) for x in p["ann"]], "units": [self.unit(u) for u in p["units"]],
                "cats": [self.l(x) for x in p["cats"]], "lo": self.t(p["lo"]), "hi": self.t(p["hi"]),
                "n": p["n"], "len": p["len"], "bool": p["bool"], "bws": p["bws"],
                "derived": {"nann": p["derived"]["nann"], "maxper": p["derived"]["maxper"], "wok": p["derived"]["wok"],
                            "avgok": p["derived"]["avgok"], "avgnum": p["derived"]["avgnum"],
                            "weights": [[self.l(k), w] for k, w in p["derived"]["weights"]]},
                "views": [[self.a(a), [self.unit(u) for u in vs]] for a, vs in p["views"]]}

    def event(self, e):
        args = []
        for k, v in zip(ARGK[e["op"]], e["args"]):
            args.append({"o": int, "i": int, "a": self.a, "t": self.t, "l": self.l}[k](v))
        return {"op": e["op"], "args": args, "out": e["out"], "kind": e.get("kind", ""),
                "obs": [[o, self.proj(p)] for o, p in e["obs"]], "eq": e["eq"],
                "aux": e.get("aux", []), "auxval": e.get("auxval", []),
                "items": [[self.t(i[0]), self.t(i[1]), self.l(i[2])] for i in e.get("items", [])]}

    def file(self, traces, nobj):
        return {"zero": self.t(0.0), "nobj": nobj, "traces": [[self.event(e) for e in tr] for tr in traces]}


def validate(traces, nobj, label="TraceContinuum", timeout=900, workers=8):
    """Send recorded histories through TraceContinuum.tla.  Returns (tlc result, verdicts)
    where verdicts is a list of (trace index, event index, clause name)."""
    if not traces:
        raise MachineryError("no traces to validate")
    enc = Encoder(traces)
    path = scratch() / f"{label}-{random.getrandbits(32):08x}.json"
    path.write_text(json.dumps(enc.file(traces, nobj)))
    cfg = "SPECIFICATION Spec\nCONSTRAINT Verdicts\n"
    res = tlc.run("TraceContinuum", cfg, label=label, env={"TRACE_FILE": str(path)}, workers=workers,
                  timeout=timeout, coverage=False)
    path.unlink(missing_ok=True)
    if res.errors or res.violated:
        raise MachineryError(f"trace validation did not run cleanly: {res.errors} {res.violated}\n{res.out[-2000:]}")
    done = {}
    verdicts = set()
    for p in res.printed:
        if "done" in p:
            done[p["done"]] = p["n"]
        elif "verdict" in p:
            verdicts.add((p["tid"] - 1, p["l"] - 1, p["verdict"]))
    for i, tr in enumerate(traces):
        if done.get(i + 1) != len(tr):
            raise MachineryError(f"trace {i} not consumed to the end ({done.get(i + 1)} of {len(tr)})\n{res.out[-1500:]}")
    return res, sorted(verdicts)
