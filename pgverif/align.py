"""C01 C02 C03 C07 C08 C11 - the alignment computations.

L1  TLC: MC_Align (pruning theorem, soft <= partition, back-end formulations), Enum (the stepwise candidate
    enumerator with buffer growth and final slice), each with mutant variants that must be rejected.
L2  spec -> code: every instance TLC enumerates is realised exactly in the real code (unique category per unit +
    precomputed matrix), aligned under both MIP back-ends, and the result is sent back through TraceAlign.tla.
L3  code -> spec: random continua x built-in dissimilarities, table observed through the compiled form,
    judged by TraceAlign.tla (structure, disorders, candidates, optimality by exhaustive search).
"""
import json
import random
import time

import numpy as np

from . import alignrec as ar
from . import tlc
from .common import MachineryError, breadcrumb, import_repo, scratch, seed

G_SCALE = 8          # family G: dyadic tables, 1.0 = 8 units
R_SCALE = 1 << 14    # family R: tables observed through the compiled form

CLAUSES = {
    "C01": {"ObsSlots", "ObsNoForeign", "ObsHasRealUnit", "ObsPartition", "Returns"},
    "C02": {"NoCheaper", "ObsModelOpt", "Returns"},
    "C03": {"ObsUnitary", "ObsTotal", "ObsRecompute", "ObsSingle", "ObsSingleWithEmpty", "ObsSingleOtherThanKnown",
            "ObsOrderFree", "Returns"},
    "C07": {"ObsCands", "Returns"},
    "C08": {"ObsBackendsAgree", "ObsPartition", "ObsCover", "NoCheaper", "ObsModelOpt", "Returns"},
    "C11": {"ObsCover", "ObsSlots", "ObsNoForeign", "ObsHasRealUnit", "NoCheaper", "ObsModelOpt", "ObsSoftLE", "ObsTotal", "Returns"},
}

# clauses of the specification that go beyond the property's statement (here: WHICH solver ran in a configuration - the
# statement fixes the results under both configurations, not the choice): a deviation is a NOTE in the evidence, never an alarm
BEYOND = {"C08": {"ObsBackend"}}

MC_ALIGN_CFG = """SPECIFICATION Spec
CONSTANTS
 NA = {na}
 MaxU = {maxu}
 DVals = {dvals}
 DE = {de}
 Variant = "{variant}"
 EmitInstances = {emit}
 Sample = {sample}
 CheckInvariance = {inv}
INVARIANT Feasible
INVARIANT PruneSafe
INVARIANT SoftPruneSafe
INVARIANT SoftLE
INVARIANT AllNullPasses
INVARIANT SingletonsAreCands
INVARIANT BackendFree
INVARIANT PermInvariant
INVARIANT DeltaEmptyLinear
"""
ENUM_CFG = """SPECIFICATION Spec
CONSTANTS
 NA = {na}
 MaxU = {maxu}
 MaxTuples = {maxt}
 Chunk = {chunk}
 Variant = "{variant}"
INVARIANT Refines
INVARIANT GrowKeeps
INVARIANT AllNullLast
INVARIANT VisitsAll
PROPERTY VisitOrder
PROPERTY Terminates
"""

# universes of instances (scaled by G_SCALE: delta_empty 1.0 = 8)
UNIVERSES = {
    "2x2": dict(na=2, maxu=2, dvals="{0, 4, 8, 16, 20}", de=8, sample=0),
    # delta_empty = 2: 24 (3.0) lies strictly between n x 1 and the cut n x delta_empty - a bound that forgets delta_empty drops it
    "2x2de2": dict(na=2, maxu=2, dvals="{0, 8, 24, 32, 36}", de=16, sample=0),
    "2x3": dict(na=2, maxu=3, dvals="{0, 6, 16, 18}", de=8, sample=40),
    "3x1": dict(na=3, maxu=1, dvals="{0, 2, 8, 12, 24}", de=8, sample=0),
    "3x2": dict(na=3, maxu=2, dvals="{0, 6, 12, 28}", de=8, sample=6),
    "3x2de05": dict(na=3, maxu=2, dvals="{0, 2, 6, 14}", de=4, sample=6),
    "4x1": dict(na=4, maxu=1, dvals="{0, 10, 20}", de=8, sample=0),
    "4x2": dict(na=4, maxu=2, dvals="{0, 6, 12, 20}", de=8, sample=2),
    # one pair far apart (4..9 delta_empty), the rest close: a tuple may be optimal although one of its pairs is very costly
    "3x1hi": dict(na=3, maxu=1, dvals="{0, 30, 36, 44}", de=8, sample=0),
    "4x1hi": dict(na=4, maxu=1, dvals="{0, 52}", de=8, sample=0),
    "4x1hi3": dict(na=4, maxu=1, dvals="{0, 44, 52, 68}", de=8, sample=0),
    "3x2hi": dict(na=3, maxu=2, dvals="{0, 6, 36, 44}", de=8, sample=6),
    "5x1": dict(na=5, maxu=1, dvals="{2, 18}", de=8, sample=0),
    "5x2": dict(na=5, maxu=2, dvals="{0, 8, 18}", de=8, sample=1, maxunits=7),     # (TLC's exhaustive optimum: <= 7 units here)
}


def sampled_instances(u, rng):
    """u["sample"] random tables for every size vector of the universe (at least one annotator with a unit)."""
    import itertools
    na, maxu, de = u["na"], u["maxu"], u["de"]
    vals = [int(x) for x in u["dvals"].strip("{}").split(",")]
    out = []
    for sizes in itertools.product(range(maxu + 1), repeat=na):
        if not any(sizes) or sum(sizes) > u.get("maxunits", 99):
            continue
        npairs = sum(sizes[a] * sizes[b] for a in range(na) for b in range(a + 1, na))
        count = min(u["sample"], len(vals) ** npairs)
        seen = set()
        while len(seen) < count:
            D = [[[[rng.choice(vals) for _ in range(sizes[b])] for _ in range(sizes[a])] if a < b else [] for b in range(na)] for a in range(na)]
            key = json.dumps(D)
            if key in seen:
                continue
            seen.add(key)
            out.append({"n": na, "sizes": list(sizes), "de": de, "D": D})
    return out


def l1_align(rep, names, emit=False, sample_mult=1, inv=False):
    insts = []
    for name in names:
        u = dict(UNIVERSES[name])
        u["sample"] = u["sample"] * sample_mult
        cfg = MC_ALIGN_CFG.format(variant="none", emit="TRUE" if emit else "FALSE", inv="TRUE" if inv else "FALSE",
                                  **{k: v for k, v in u.items() if k != "maxunits"})
        env = None
        if u["sample"] > 0:
            path = scratch() / f"insts-{name}.json"
            path.write_text(json.dumps({"insts": sampled_instances(u, random.Random(seed() * 7907 + sum(map(ord, name))))}))
            env = {"TRACE_FILE": str(path)}
        res = tlc.run("MC_Align", cfg, label=f"MC_Align {name}", workers=16, timeout=2400, env=env)
        if res.violated:
            raise MachineryError(f"MC_Align {name}: spec violates {res.violated}\n{res.trace_text[:2000]}")
        tlc.require(res, actions=["Solve"])
        rep.add_tlc(res)
        for p in res.printed:
            if "inst" in p:
                p["universe"] = name
                insts.append(p)
    return insts


def l1_align_mutants(rep):
    cfg = MC_ALIGN_CFG.format(variant="crit_without_n", emit="FALSE", inv="FALSE", na=2, maxu=2, dvals="{0, 12, 20}", de=8, sample=0)
    r = tlc.run("MC_Align", cfg, label="mutant crit_without_n", workers=16, timeout=600, coverage=False)
    if not ({"PruneSafe", "SingletonsAreCands", "Feasible", "SoftPruneSafe"} & set(r.violated)):
        raise MachineryError(f"mutant crit_without_n not rejected: {r.violated} {r.errors}")
    rep.extra.setdefault("mutants_killed", []).append("MC_Align:crit_without_n")


def l1_enum(rep, tier):
    combos = [(2, 3, 9, 2), (2, 3, 9, 3), (3, 1, 8, 2), (2, 2, 9, 4)]
    if tier == "thorough":
        combos += [(2, 3, 12, 2), (2, 3, 12, 4), (3, 2, 12, 3), (3, 2, 12, 2), (4, 1, 16, 4), (2, 4, 10, 3)]
    for na, maxu, maxt, chunk in combos:
        cfg = ENUM_CFG.format(na=na, maxu=maxu, maxt=maxt, chunk=chunk, variant="none")
        res = tlc.run("Enum", cfg, label=f"Enum NA={na} MaxU={maxu} tuples<={maxt} chunk={chunk}", workers=16, timeout=1500)
        if res.violated:
            raise MachineryError(f"Enum: spec violates {res.violated}\n{res.trace_text[:2000]}")
        tlc.require(res, actions=["EnumStep", "Slice"])
        rep.add_tlc(res)
    for variant, expect in (("grow_drops_last", {"GrowKeeps", "Refines"}), ("slice_keeps_last", {"Refines"})):
        r = tlc.run("Enum", ENUM_CFG.format(na=2, maxu=3, maxt=9, chunk=2, variant=variant), label=f"mutant {variant}",
                    workers=8, timeout=600, coverage=False)
        if not (expect & set(r.violated)):
            raise MachineryError(f"Enum mutant {variant} not rejected: {r.violated} {r.errors}")
        rep.extra.setdefault("mutants_killed", []).append(f"Enum:{variant}")


# ------------------------------------------------------------------ running the real code
def run_modes(pa, c, d, D, de_int, scale, tol, band, *, backends, modes, search, modelopt=None, cands=True,
              recompute=True, meta=None, rng=None, violations=None):
    """Align continuum c in the requested modes / back-ends and return TraceAlign records."""
    recs = []
    cand_obs = None
    bestcost = -1
    breadcrumb("aligning " + json.dumps({k: v for k, v in (meta or {}).items() if k != "D"}, default=str)[:1500])
    for mode in modes:
        for be in backends:
            ar.last_solver()
            t0 = time.time()
            try:
                with ar.backend(be):
                    if mode == "partition":
                        al = c.get_best_alignment(d)
                    else:
                        al = c.get_best_soft_alignment(d)
            except Exception as ex:          # the computation must return
                if violations is not None:
                    violations.append(("Returns", {"mode": mode, "backend": be, "exception": repr(ex), "meta": meta}))
                continue
            got = ar.last_solver()
            if cands and cand_obs is None:
                dis, tup = d.valid_alignments(c)
                cand_obs = (dis, tup) if len(dis) <= 3000 else None      # big lists: see cands.growth_records
            mo = -1
            if modelopt is not None:
                mo = modelopt["pruned" if mode == "partition" else "softp"]
            rec = ar.make_record(pa, c, d, al, D, de_int, scale, mode, tol, search=search, band=band,
                                 want_backend="GLPK_MI" if be == "CBC_FAILS" else be, got_backend=got, modelopt=mo,
                                 with_recompute=recompute, cands=cand_obs if (cands and mode == "partition" and be == backends[0]) else None,
                                 rng=rng, meta=dict(meta or {}, mode=mode, backend=be, secs=round(time.time() - t0, 4)))
            recs.append(rec)
    return recs


def continuum_summary(c):
    return {a: [[float(u.segment.start), float(u.segment.end), u.annotation] for u in c[a]] for a in c.annotators}


def l2_records(pa, insts, backends, modes, rng, violations, limit=None):
    recs = []
    if limit and len(insts) > limit:
        # the small "one costly pair" universes are always replayed in full; the rest is thinned
        keep = [i for i in insts if "hi" in i.get("universe", "")]
        rest = [i for i in insts if "hi" not in i.get("universe", "")]
        insts = keep + rng.sample(rest, max(0, min(len(rest), limit - len(keep))))
    clean = []
    for p in insts:
        inst = p["inst"]
        n = inst["n"]
        D = [[(inst["D"][a][b] if a < b else []) for b in range(n)] for a in range(n)]
        D = [[[list(row) for row in D[a][b]] for b in range(n)] for a in range(n)]
        clean.append({"n": n, "sizes": inst["sizes"], "D": D, "de": inst["de"]})
    realised = ar.realise_batch(pa, clean, G_SCALE)
    for p, ci, (c, d) in zip(insts, clean, realised):
        inst, n, sizes, D = p["inst"], ci["n"], ci["sizes"], ci["D"]
        if sum(1 for s in sizes if s >= 0) < 2 or not c:
            continue
        recs += run_modes(pa, c, d, D, inst["de"], G_SCALE, tol=1, band=0, backends=backends, modes=modes,
                          search=True, modelopt=p["result"], rng=rng, violations=violations,
                          meta={"family": "G", "universe": p["universe"], "sizes": sizes, "D": D, "de": inst["de"],
                                "model": p["result"]})
    return recs


LABELS = ["x", "y", "zz", "10", "9", "2"]


def random_continuum(pa, rng, n_ann, max_units, unlabelled=0.0, grid=True, allow_empty=True, full=False):
    from pyannote.core import Segment
    c = pa.Continuum()
    for a in range(n_ann):
        name = f"an{a}"
        c.add_annotator(name)
        k = max_units if full else rng.randint(0 if allow_empty else 1, max_units)
        for _ in range(k):
            if grid:
                s = rng.randint(0, 20)
                e = s + rng.randint(1, 8)
            else:
                s = round(rng.uniform(0, 30), 3)
                e = s + round(rng.uniform(0.05, 9), 3)
            lab = None if rng.random() < unlabelled else rng.choice(LABELS)
            c.add(name, Segment(s, e), lab)
    # coincident units across annotators
    if rng.random() < 0.3 and c:
        (a0, u0) = rng.choice([(a, u) for a, u in c])
        for a in list(c.annotators):
            if rng.random() < 0.5:
                c.add(a, u0.segment, u0.annotation)
    return c


_TRIPLES, _DISSIMS = [], {}


def random_dissim(pa, rng, c, allow_cat=True):
    """A built-in dissimilarity with random parameters, applicable to continuum c.
    Objects are re-used for equal (kind, parameters, declared categories): every new dissimilarity object costs a JIT
    compilation of its own and ~1 MB that numba never gives back (thousands of them made the thorough tier swell to 10 GB), and
    using ONE object on many continua is what a user does.  The parameter triples come from a pool of 48 drawn once."""
    if not _TRIPLES:
        des = [0.5, 1.0, 2.0, 0.5, 1.0, 2.0, 0.85, 1.7, 1.45, 2.9, 0.3, 1.95, 1.15, 0.1, 0.2, 0.4, 0.8, 0.05, 0.9, 1.3, 0.7]   # dyadic and non-dyadic
        while len(_TRIPLES) < 48:
            _TRIPLES.append((rng.choice(des), rng.choice([0.0, 0.5, 1.0, 3.0, 0.7, 2.2]), rng.choice([0.0, 0.5, 1.0, 3.0, 1.3])))
    de, alpha, beta = rng.choice(_TRIPLES)
    kind, key, make = _random_dissim_spec(pa, rng, c, allow_cat, de, alpha, beta)
    if key not in _DISSIMS:
        _DISSIMS[key] = make()
    return kind, _DISSIMS[key]


def _random_dissim_spec(pa, rng, c, allow_cat, de, alpha, beta):
    """(kind, cache key, constructor) - the random choices (label order, matrix) are made here, the object only if needed."""
    kind, d = _random_dissim_build(pa, rng, c, allow_cat, de, alpha, beta, dry=True)
    return kind, d[0], d[1]


def _random_dissim_build(pa, rng, c, allow_cat, de, alpha, beta, dry=False):
    labelled = all(u.annotation is not None for _, u in c) and len(c.categories) > 0
    kinds = ["pos", "comb_abs", "abs"]
    if labelled and allow_cat:
        kinds += ["comb_lev", "comb_ord", "comb_pre", "pre", "lev", "comb_num"]
    kind = rng.choice(kinds)
    cats = c.categories
    if labelled and rng.random() < 0.5:
        # the dissimilarity is declared on a strict SUPERSET of the labels in use (unused labels before, between and after)
        from sortedcontainers import SortedSet
        cats = SortedSet(list(cats) + ["0", "5", "m", "zzzz"])
    ck = tuple(cats) if cats is not None else None
    if kind == "pos":
        return kind, ((kind, de), lambda: pa.PositionalSporadicDissimilarity(delta_empty=de))
    if kind == "abs":
        return kind, ((kind, de), lambda: pa.AbsoluteCategoricalDissimilarity(delta_empty=de))
    if kind == "comb_abs":
        return kind, ((kind, de, alpha, beta), lambda: pa.CombinedCategoricalDissimilarity(alpha=alpha, beta=beta, delta_empty=de))
    if kind == "comb_num" and not all(x.isdigit() for x in c.categories):
        return "comb_abs", (("comb_abs", de, alpha, beta), lambda: pa.CombinedCategoricalDissimilarity(alpha=alpha, beta=beta, delta_empty=de))
    labs = list(cats)
    if kind == "comb_ord":
        rng.shuffle(labs)
        labs = labs if hash(tuple(labs)) % 3 else sorted(labs, reverse=True)     # a few supply orders per category set, not all

    def component():
        if kind in ("lev", "comb_lev"):
            return pa.LevenshteinCategoricalDissimilarity(list(cats), delta_empty=de)
        if kind == "comb_ord":
            return pa.OrdinalCategoricalDissimilarity(labs, delta_empty=de)
        if kind == "comb_num":
            return pa.NumericalCategoricalDissimilarity([x for x in cats if x.replace(".", "").isdigit()], delta_empty=de)
        k = len(cats)
        mrng = random.Random(hash((ck, de)) & 0xFFFFFFF)       # the matrix is a function of (categories, delta_empty)
        m = np.zeros((k, k), dtype=np.float32)
        for i in range(k):
            for j in range(i):
                m[i, j] = m[j, i] = mrng.choice([0.25, 0.5, 1.0, 1.5])
        return pa.PrecomputedCategoricalDissimilarity(cats, m, delta_empty=de)
    if kind in ("pre", "lev"):
        return kind, ((kind, de, ck), component)
    return kind, ((kind, de, alpha, beta, ck, tuple(labs) if kind == "comb_ord" else None),
                  lambda: pa.CombinedCategoricalDissimilarity(alpha=alpha, beta=beta, delta_empty=de, cat_dissim=component()))


SHAPES_SEARCH = [(2, 5), (2, 6), (3, 3), (3, 4), (4, 2), (4, 3), (5, 2)]


def l3_records(pa, rng, count, backends, modes, violations, shapes=SHAPES_SEARCH, unlabelled=0.25, search=True,
               cands=True, recompute=True, dense=False):
    recs = []
    tries = 0
    while len(recs) < count and tries < count * 4:
        tries += 1
        n_ann, mu = rng.choice(shapes)
        unl = rng.choice([0.0, 0.0, unlabelled, 1.0])
        c = random_continuum(pa, rng, n_ann, mu, unlabelled=unl, grid=rng.random() < 0.6, allow_empty=not dense, full=dense)
        if not c:
            continue
        kind, d = random_dissim(pa, rng, c)
        if dense:       # heavily overlapping medium continua, positional weight 3: many near-optimal alignments (hard for a MIP gap)
            kind, d = "comb_abs", pa.CombinedCategoricalDissimilarity(alpha=3, beta=rng.choice([1, 2]), delta_empty=rng.choice([1.0, 1.0, 0.5]))
        try:
            D, de_int = ar.observe_table(pa, c, d, R_SCALE)
        except Exception as ex0:
            # the library failed while the harness was only observing the pairwise table: it counts as a violation
            # of "the computation returns" only if the alignment computation itself fails on this input too
            try:
                c.get_best_alignment(d)
            except Exception as ex:
                violations.append(("Returns", {"mode": "partition", "exception": repr(ex), "dissim": kind,
                                               "continuum": continuum_summary(c)}))
                recs_failed = True
                tries += 0
                continue
            raise MachineryError(f"cannot observe the pairwise table: {ex0!r}")
        meta = {"family": "R", "dissim": kind, "delta_empty": float(d.delta_empty), "alpha": getattr(d, "alpha", None),
                "beta": getattr(d, "beta", None), "declared_categories": None if d.categories is None else list(d.categories),
                "continuum": continuum_summary(c)}
        recs += run_modes(pa, c, d, D, de_int, R_SCALE, tol=8, band=16, backends=backends, modes=modes,
                          search=search and c.num_units <= 12, cands=cands, recompute=recompute, rng=rng,
                          violations=violations, meta=meta)
        if rng.random() < 0.35 and c.num_units >= 2:
            # the SAME continuum object edited in place, then everything recomputed with the SAME dissimilarity object: nothing
            # may be remembered from before the edit.  Edits: a unit moved and relabelled (remove + add, unit count unchanged);
            # a unit removed and nothing added (the count and the mean number of units per annotator change); a unit added;
            # a new annotator without any unit registered (every unitary alignment gets one more, empty, slot); another
            # continuum merged in place
            from pyannote.core import Segment
            a, u = rng.choice([(a, u) for a, u in c])
            labs_in_use = [x.annotation for _, x in c]
            edit = rng.choice(["move", "move", "remove", "remove", "add", "annotator", "merge"])
            if edit == "annotator" and len(c.annotators) >= 5:
                edit = "remove"
            try:
                if edit == "move":
                    new = (Segment(u.segment.start + rng.choice([1, 2.5, 7]), u.segment.end + rng.choice([7, 9.5])), rng.choice(labs_in_use))
                    if any(x.segment == new[0] and x.annotation == new[1] for x in c[a]):
                        continue
                    c.remove(a, u)
                    c.add(a, new[0], new[1])
                elif edit == "remove":
                    c.remove(a, u)
                    if c.num_units >= 3 and rng.random() < 0.4:
                        a2, u2 = rng.choice([(x, y) for x, y in c])
                        c.remove(a2, u2)
                elif edit == "add":
                    c.add(a, Segment(u.segment.start + rng.choice([0.5, 3]), u.segment.end + rng.choice([4, 11.5])), rng.choice(labs_in_use))
                elif edit == "annotator":
                    c.add_annotator(rng.choice(["aa_new", "zz_new", "an1b"]))
                else:
                    other = pa.Continuum()
                    other.add(a, Segment(u.segment.start + 1.5, u.segment.end + 2.5), rng.choice(labs_in_use))
                    if len(c.annotators) < 5 and rng.random() < 0.5:
                        other.add("zz_merged", Segment(u.segment.start, u.segment.end + 1.0), rng.choice(labs_in_use))
                    c.merge(other, in_place=True)
            except Exception as ex:
                raise MachineryError(f"in-place edit {edit} failed: {ex!r}")
            if c.num_units < 1:
                continue
            try:
                D2, de2 = ar.observe_table(pa, c, d, R_SCALE)
            except Exception:
                continue
            recs += run_modes(pa, c, d, D2, de2, R_SCALE, tol=8, band=16, backends=backends[:1], modes=modes,
                              search=search and c.num_units <= 12, cands=cands, recompute=recompute, rng=rng, violations=violations,
                              meta=dict(meta, edited_in_place=edit, continuum=continuum_summary(c)))
    return recs


def handbuilt_records(pa, rng, count):
    """C03: arbitrary (not optimal) partitions built by hand, with and without an attached continuum."""
    recs = []
    while len(recs) < count:
        n_ann, mu = rng.choice([(2, 4), (3, 3), (4, 2), (5, 2)])
        c = random_continuum(pa, rng, n_ann, mu, unlabelled=0.0, grid=rng.random() < 0.5)
        if not c:
            continue
        kind, d = random_dissim(pa, rng, c)
        anns = list(c.annotators)
        # uncapped-enough table: hand-built tuples may pair units far above the pruning threshold
        D, de_int = ar.observe_table(pa, c, d, R_SCALE, cap_factor=1 << 21)
        units = ar.units_by_annotator(c)
        pools = {a: list(range(len(units[i]))) for i, a in enumerate(anns)}
        for a in anns:
            rng.shuffle(pools[a])
        uas = []
        while any(pools.values()):
            tup, members = [], []
            for ai, a in enumerate(anns):
                ok = bool(pools[a]) and rng.random() < 0.7
                if ok:
                    i = pools[a][-1]
                    for (bi, j) in members:      # keep every pair value below the cap so the integers stay exact
                        if D[min(ai, bi)][max(ai, bi)][j if bi < ai else i][i if bi < ai else j] >= (1 << 21):
                            ok = False
                if ok:
                    pools[a].pop()
                    members.append((ai, i))
                    tup.append((a, units[ai][i]))
                else:
                    tup.append((a, None))
            if all(u is None for _, u in tup):
                continue
            rng.shuffle(tup)        # slots listed in any order
            uas.append(pa.UnitaryAlignment(tup))
        for attach in (True, False):
            al = pa.Alignment([pa.UnitaryAlignment(list(u.n_tuple)) for u in uas], c if attach else None)
            al.compute_disorder(d)
            recs.append(ar.make_record(pa, c, d, al, D, de_int, R_SCALE, "partition", 8, search=False, band=16, rng=rng,
                                       meta={"family": "hand", "attached": attach, "dissim": kind,
                                             "continuum": continuum_summary(c)}))
    return recs


def judge_and_report(rep, pid, recs, violations, label):
    res, verdicts = ar.judge(recs, label=label)
    rep.add_tlc(res)
    rep.traces += len(recs)
    wanted = CLAUSES[pid]
    for i, r in enumerate(recs):
        m = r["_meta"]
        if r.get("_malformed") and "ObsCands" in wanted:
            rep.violation("align.ObsCands.malformed", {"record": {k: v for k, v in r.items() if k not in ("D", "cands", "_meta", "_malformed")},
                                                       "malformed": r["_malformed"], "meta": m})
        rep.case(key=json.dumps([r["sizes"], r["D"], r["mode"], r["wantbackend"]]), nontrivial=sum(r["sizes"]) >= 2)
        bad = [v for v in verdicts.get(i, []) if v in wanted]
        for v in verdicts.get(i, []):
            if v in BEYOND.get(pid, ()):
                rep.beyond(f"align.{v}", {"wanted_backend": r["wantbackend"], "observed_backend": r["backend"], "meta": m})
        if bad:
            key = classify(pid, bad)
            rep.violation(key, {"clauses": bad, "record": {k: v for k, v in r.items() if k not in ("D", "cands", "_meta")},
                                "meta": m})
    for name, detail in violations:
        if name in wanted:
            rep.violation(f"align.{name}", detail)
    if recs:
        r = recs[0]
        rep.sample({"sizes": r["sizes"], "mode": r["mode"], "backend": r["backend"], "tuples": r["tuples"],
                    "tot": r["tot"], "meta": {k: v for k, v in r["_meta"].items() if k != "D"}})


def classify(pid, bad):
    if pid == "C03" and set(bad) == {"ObsSingleWithEmpty"}:
        return "unitary.compute_disorder.empty_slot"
    return "align." + "+".join(bad)


def run_property(pid, tier, rep):
    pa = import_repo()
    ar.install_solver_probe()
    rng = random.Random(seed() * 1000003 + int(pid[1:]))
    quick = tier == "quick"
    violations = []
    rep.rule = ("instances = (sizes, pairwise table, mode, back-end); L2 instances are enumerated by TLC (MC_Align) and "
                "realised exactly in the code, L3 instances are random continua x built-in dissimilarities with the table "
                "observed through the compiled form; non-trivial = at least 2 units")
    rep.assumptions += ["cvxpy/CBC/GLPK are only observed, never trusted: optimality is re-decided by TLC's exhaustive search (<= 12 units)",
                        "float32 rounding: dyadic tables are exact (tolerance 1/8 unit), observed tables use 2^-14 fixed point, tolerance 8 units per tuple"]
    both = ["CBC", "GLPK_MI"]
    if pid == "C01":
        l1_align_mutants(rep)
        insts = l1_align(rep, ["2x2", "3x1", "4x1", "3x1hi", "4x1hi"] if quick else ["2x2", "2x2de2", "2x3", "3x1", "3x2", "4x1", "4x2", "5x1", "5x2", "3x1hi", "4x1hi3", "3x2hi"],
                         emit=True, sample_mult=1 if quick else 4)
        recs = l2_records(pa, insts, both, ["partition"], rng, violations, limit=350 if quick else None)
        recs += l3_records(pa, rng, 300 if quick else 4000, both, ["partition"], violations,
                           shapes=[(2, 6), (3, 5), (4, 4), (5, 3), (2, 12), (3, 7)], search=False, cands=False, recompute=False)
    elif pid == "C02":
        l1_align_mutants(rep)
        insts = l1_align(rep, ["2x2", "2x2de2", "3x1", "3x1hi", "4x1hi"] if quick else list(UNIVERSES), emit=True, sample_mult=1 if quick else 4)
        recs = l2_records(pa, insts, both, ["partition"], rng, violations, limit=380 if quick else None)
        recs += l3_records(pa, rng, 200 if quick else 3000, both, ["partition"], violations, cands=False, recompute=False)
        from . import cands
        recs += cands.planted_records(pa, rng, quick, backends=("CBC",) if quick else ("CBC", "GLPK_MI"))
    elif pid == "C03":
        insts = l1_align(rep, ["3x1", "4x1"] if quick else ["2x2", "3x1", "3x2", "4x1", "5x1"], emit=True)
        recs = l2_records(pa, insts, ["CBC"], ["partition", "soft"], rng, violations, limit=150 if quick else 1500)
        recs += l3_records(pa, rng, 150 if quick else 2000, ["CBC"], ["partition", "soft"], violations, search=False, cands=False)
        recs += handbuilt_records(pa, rng, 150 if quick else 2000)
        recs += fast_records(pa, rng, 60 if quick else 800)
    elif pid == "C07":
        l1_enum(rep, tier)
        insts = l1_align(rep, ["2x2", "3x1", "4x1", "3x1hi", "4x1hi"] if quick else ["2x2", "2x2de2", "2x3", "3x1", "3x2", "4x1", "5x1", "3x1hi", "4x1hi3", "3x2hi"], emit=True,
                         sample_mult=1 if quick else 3)
        recs = l2_records(pa, insts, ["CBC"], ["partition"], rng, violations, limit=300 if quick else None)
        recs += l3_records(pa, rng, 120 if quick else 1500, ["CBC"], ["partition"], violations, search=False, recompute=False,
                           shapes=[(2, 6), (3, 4), (4, 3), (5, 2), (2, 20), (3, 8)])
        recs += growth_records(pa, rng, quick)
    elif pid == "C08":
        insts = l1_align(rep, ["2x2", "3x1"] if quick else ["2x2", "2x2de2", "2x3", "3x1", "3x2", "4x1", "5x1"], emit=True,
                         sample_mult=1 if quick else 3)
        recs = l2_records(pa, insts, both, ["partition", "soft"], rng, violations, limit=110 if quick else None)
        # third configuration: cylp imports but CBC fails at run time (SolverError): the same fallback must take over
        recs += l3_records(pa, rng, 40 if quick else 800, ["CBC_FAILS"], ["partition", "soft"], violations, cands=False, recompute=False)
        recs += l3_records(pa, rng, 140 if quick else 3000, both, ["partition", "soft"], violations, cands=False, recompute=False)
        # medium continua (beyond the optimality search): the two back-ends must still agree with each other
        recs += l3_records(pa, rng, 60 if quick else 1000, both, ["partition", "soft"], violations, cands=False, recompute=False,
                           search=False, shapes=[(3, 7), (4, 5), (2, 15), (5, 4), (3, 9)], unlabelled=0.0)
        recs += l3_records(pa, rng, 260 if quick else 5000, both, ["partition"], violations, cands=False, recompute=False,
                           search=False, shapes=[(3, 7), (3, 8), (4, 5), (3, 6)], unlabelled=0.0, dense=True)
        # a few large ones (5x8 .. 5x10, tens of thousands of candidates): tiny objective coefficients, long branch-and-bound
        recs += l3_records(pa, rng, 28 if quick else 200, both, ["partition"], violations, cands=False, recompute=False,
                           search=False, shapes=[(5, 8), (5, 10), (4, 12), (5, 9)], unlabelled=0.0, dense=True)
        recs = add_other_backend_cost(recs)
    elif pid == "C11":
        l1_align_mutants(rep)
        insts = l1_align(rep, ["2x2", "2x2de2", "3x1", "4x1", "3x1hi"] if quick else list(UNIVERSES), emit=True, sample_mult=1 if quick else 4)
        recs = l2_records(pa, insts, both, ["partition", "soft"], rng, violations, limit=260 if quick else None)
        recs += l3_records(pa, rng, 200 if quick else 3000, both, ["partition", "soft"], violations, cands=False, recompute=False)
        recs = add_soft_le(recs)
        soft_permutation_pairs(rep, pa, rng, 40 if quick else 600)
    else:
        raise MachineryError(pid)
    if pid != "C11":
        for r in recs:
            r.setdefault("bestcost", -1)
    # judge in batches
    B = 1500
    for i in range(0, len(recs), B):
        judge_and_report(rep, pid, recs[i:i + B], violations if i == 0 else [], label=f"TraceAlign {pid} batch {i // B}")
    if pid == "C03":
        # the life cycle of alignment OBJECTS (AlignObj.tla): carried values under any history of computations and setters
        from . import alignobj
        alignobj.run(rep, pa, random.Random(seed() * 1000003 + 303), quick)
    if pid in ("C08",):
        n_glpk = sum(1 for r in recs if r["backend"] == "GLPK_MI")
        n_cbc = sum(1 for r in recs if r["backend"] == "CBC")
        rep.extra["runs_per_backend_observed"] = {"CBC": n_cbc, "GLPK_MI": n_glpk}
        if n_glpk == 0 or n_cbc == 0:
            # the library no longer switches solvers with the configuration: the two configurations were still both run and
            # compared, which is all the statement asks for
            rep.beyond("align.one_backend_only", {"runs_per_backend_observed": rep.extra["runs_per_backend_observed"]})


def soft_permutation_pairs(rep, pa, rng, count):
    """C11 on medium continua (no exact oracle): the minimum over covers does not depend on how the annotators are named,
    so the soft alignment of a continuum and of its annotator-reversed copy must cost the same (judged by TraceInvariance)."""
    from . import invariance
    recs, metas = [], []
    while len(recs) < count:
        shape = rng.choice([(2, 40), (2, 60), (3, 12), (2, 25)])
        c = invariance.big_continuum(pa, rng, shape, ["Adj", "Noun", "Verb"])
        if len(recs) % 3 == 2:
            # crowded: many long units over the same stretch of time - nearly every pair is a candidate (thousands of them)
            # and their costs are small and close to each other
            from pyannote.core import Segment
            c = pa.Continuum()
            k = rng.choice([30, 45, 60])
            for a in ("ann_0", "ann_1"):
                for _ in range(k):
                    s0 = round(rng.uniform(0, 40), 2)
                    c.add(a, Segment(s0, s0 + round(rng.uniform(30, 60), 2)), rng.choice(["Adj", "Noun"]))
            shape = (2, k)
        elif len(recs) % 3 == 0:
            # near-copies: every other annotator repeats the first one with small jitter and some units cut in two -
            # many covers within a hair of each other (tiny gaps between the optimum and its neighbours)
            from pyannote.core import Segment
            first = list(c.annotators)[0]
            base_units = list(c[first])
            c = pa.Continuum()
            for u in base_units:
                c.add(first, u.segment, u.annotation)
            for k in range(1, shape[0]):
                for u in base_units:
                    s0 = u.segment.start + rng.choice([0, 0, 0.01, -0.02, 0.05])
                    e0 = u.segment.end + rng.choice([0, 0, 0.01, -0.03, 0.04])
                    if rng.random() < 0.25:
                        mid = (s0 + e0) / 2
                        c.add(f"ann_{k}", Segment(s0, mid), u.annotation)
                        c.add(f"ann_{k}", Segment(mid, e0), u.annotation)
                    else:
                        c.add(f"ann_{k}", Segment(s0, e0), u.annotation)
        d = rng.choice([pa.PositionalSporadicDissimilarity(delta_empty=rng.choice([1.0, 0.5])),
                        pa.CombinedCategoricalDissimilarity(alpha=rng.choice([1, 3]), beta=1, delta_empty=1.0)])
        anns = list(c.annotators)
        m = dict(zip(anns, [f"p{(len(anns) - i):02d}" for i in range(len(anns))]))
        c2 = invariance.transform(pa, c, ann_map=m)
        try:
            a1, a2 = c.get_best_soft_alignment(d).disorder, c2.get_best_soft_alignment(d).disorder
        except Exception as ex:
            rep.violation("align.Returns", {"mode": "soft", "exception": repr(ex), "shape": shape})
            continue
        recs.append({"kind": "permute_soft", "c": [1, 1], "base": invariance.fxv(a1), "other": invariance.fxv(a2), "hasgamma": 0, "gbase": 0, "gother": 0})
        metas.append({"shape": shape, "dissim": type(d).__name__, "soft_cost": float(a1), "soft_cost_annotators_reversed": float(a2)})
        rep.case(key=json.dumps(metas[-1]))
    res, verdicts = invariance.judge(recs)
    rep.add_tlc(res)
    rep.traces += len(recs)
    for k, names in verdicts.items():
        rep.violation("align.soft_not_permutation_invariant", {"clauses": sorted(names), "meta": metas[k]})


def add_other_backend_cost(recs):
    """C08: attach to each record the cost the other back-end reported for the same instance and mode."""
    by = {}
    for r in recs:
        by.setdefault((json.dumps(r["sizes"]), json.dumps(r["D"]), r["de"], json.dumps(r["_meta"].get("continuum")), r["mode"]), {})[r["wantbackend"]] = r
    for group in by.values():
        if len(group) == 2:
            a, b = group.values()
            a["othercost"], b["othercost"] = b["tot"], a["tot"]
    return recs


def add_soft_le(recs):
    """C11: attach to each soft record the cost of the partition alignment of the same instance/back-end."""
    best = {}
    for r in recs:
        if r["mode"] == "partition":
            best[(json.dumps(r["sizes"]), json.dumps(r["D"]), r["de"], json.dumps(r["_meta"].get("continuum")), r["wantbackend"])] = r
    for r in recs:
        if r["mode"] == "soft":
            b = best.get((json.dumps(r["sizes"]), json.dumps(r["D"]), r["de"], json.dumps(r["_meta"].get("continuum")), r["wantbackend"]))
            r["bestcost"] = b["tot"] if b else -1
    return recs


def fast_records(pa, rng, count):
    recs = []
    while len(recs) < count:
        n_ann, mu = rng.choice([(2, 6), (3, 4), (4, 3)])
        c = random_continuum(pa, rng, n_ann, mu, unlabelled=0.0, grid=rng.random() < 0.5)
        if not c:
            continue
        kind, d = random_dissim(pa, rng, c)
        w = rng.randint(1, 3)
        al = run_with_alarm(lambda: c.get_fast_alignment(d, w), 20)
        if al is None:
            continue      # termination is C10's business
        D, de_int = ar.observe_table(pa, c, d, R_SCALE)
        recs.append(ar.make_record(pa, c, d, al, D, de_int, R_SCALE, "partition", 8, search=False, band=16, rng=rng,
                                   meta={"family": "fast", "w": w, "dissim": kind, "continuum": continuum_summary(c)}))
    return recs


def run_with_alarm(fn, secs):
    import signal

    def _alarm(*_):
        raise TimeoutError()
    old = signal.signal(signal.SIGALRM, _alarm)
    signal.alarm(secs)
    try:
        return fn()
    except TimeoutError:
        return None
    finally:
        signal.alarm(0)
        signal.signal(signal.SIGALRM, old)


def growth_records(pa, rng, quick):
    """C07: candidate lists that cross the buffer-growth boundaries (10 000 / 15 000 / 22 500 entries)."""
    from . import cands
    return cands.growth_records(pa, rng, quick)


def replay(path, rep):
    """Re-run the alignment of a stored violation on the current tree and print what the library returns now."""
    from pyannote.core import Segment
    d0 = json.loads(open(path).read())
    det = d0["detail"]
    meta = det.get("meta", det)
    print("key:", d0.get("key"), " clauses:", det.get("clauses"))
    pa = import_repo()
    ar.install_solver_probe()
    c, d = None, None
    if meta.get("family") == "G" and "D" in meta:
        c, d = ar.realise_table(pa, {"n": len(meta["sizes"]), "sizes": meta["sizes"], "D": meta["D"], "de": meta["de"]}, G_SCALE)
        print("instance (TLC-enumerated, table realised by a precomputed matrix): sizes", meta["sizes"], "delta_empty", meta["de"] / G_SCALE,
              " model optimum (sum over pairs, x8):", meta.get("model"))
    elif "continuum" in meta:
        c = pa.Continuum()
        for a, units in meta["continuum"].items():
            c.add_annotator(a)
            for s0, e0, lab in units:
                c.add(a, Segment(s0, e0), lab)
        kind = meta.get("dissim")
        de, al_, be_ = meta.get("delta_empty", 1.0), meta.get("alpha") or 1.0, meta.get("beta") or 1.0
        if kind == "pos":
            d = pa.PositionalSporadicDissimilarity(delta_empty=de)
        elif kind == "abs":
            d = pa.AbsoluteCategoricalDissimilarity(delta_empty=de)
        elif kind == "comb_abs":
            d = pa.CombinedCategoricalDissimilarity(alpha=al_, beta=be_, delta_empty=de)
        print("continuum:", meta["continuum"], " dissimilarity:", kind, de, al_, be_)
    if c is None or d is None:
        print(json.dumps(det, indent=1, default=str)[:4000])
        print("(this record's dissimilarity cannot be rebuilt from the replay file; the record above is what was judged)")
        return
    for be in ("CBC", "GLPK_MI"):
        for name, fn in (("best", c.get_best_alignment), ("soft", c.get_best_soft_alignment)):
            try:
                with ar.backend(be):
                    al = fn(d)
                print(be, name, "disorder", float(al.disorder), "tuples",
                      [[None if u is None else (u.segment.start, u.segment.end, u.annotation) for _, u in ua.n_tuple] for ua in al.unitary_alignments])
            except Exception as ex:
                print(be, name, "raises", repr(ex))
