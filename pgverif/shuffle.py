"""C16 - the shuffle sampler emits wrapped translations with separated pivots.

L1  TLC: ShuffleSampler.tla (pivot drawing + interval bookkeeping on an integer line, both pivot types): Separated,
    AvailExcludesZones, bounds, whole-number pivots; the library's pre-fix subtraction is the mutant `extend_segments`.
    In int mode the spec, like the code, truncates the drawn point: Separated then fails by < 1 time unit (known finding),
    SeparatedUpToTruncation holds.
L3  code -> spec: samples drawn by the real sampler from random references; TraceShuffle.tla infers, for every sampled
    annotator, a source annotator and a pivot that explain it, requires the pivot to be one of the uniform draws really
    made (harness-side probe on np.random.uniform) and replays the pivots through the spec's bookkeeping.
"""
import json
import random

import numpy as np

from . import tlc
from .common import MachineryError, import_repo, scratch, seed

CFG = """SPECIFICATION Spec
CONSTANTS
 Lo = {lo}
 Hi = {hi}
 Dist = {dist}
 K = {k}
 NPiv = {npiv}
 IntMode = {intmode}
 Variant = "{variant}"
INVARIANT {sep}
INVARIANT AvailExcludesZones
INVARIANT AvailWellFormed
INVARIANT PivotsInBounds
INVARIANT IntPivots
INVARIANT ShiftLemma
"""
K = 1000
LABELS = ["x", "y", "zz", None]


def l1(rep, tier):
    unis = [dict(lo=0, hi=12, dist=2, k=1, npiv=3, intmode="FALSE"), dict(lo=0, hi=8, dist=3, k=1, npiv=4, intmode="FALSE"),
            dict(lo=0, hi=16, dist=3, k=2, npiv=3, intmode="TRUE"), dict(lo=1, hi=9, dist=1, k=1, npiv=4, intmode="FALSE")]
    if tier == "thorough":
        unis += [dict(lo=0, hi=14, dist=2, k=1, npiv=5, intmode="FALSE"), dict(lo=0, hi=20, dist=5, k=2, npiv=4, intmode="TRUE"),
                 dict(lo=3, hi=21, dist=4, k=3, npiv=3, intmode="TRUE"), dict(lo=0, hi=12, dist=1, k=1, npiv=5, intmode="FALSE")]
    for u in unis:
        sep = "SeparatedUpToTruncation" if u["intmode"] == "TRUE" else "Separated"
        res = tlc.run("ShuffleSampler", CFG.format(variant="none", sep=sep, **u), label=f"ShuffleSampler {u}", workers=8, timeout=900)
        if res.violated:
            raise MachineryError(f"ShuffleSampler {u}: spec violates {res.violated}\n{res.trace_text[:2000]}")
        tlc.require(res, actions=["DrawPivot"])
        rep.add_tlc(res)
    r = tlc.run("ShuffleSampler", CFG.format(variant="extend_segments", sep="Separated", **unis[0]), label="mutant extend_segments",
                workers=8, timeout=600, coverage=False)
    if not ({"Separated", "AvailExcludesZones"} & set(r.violated)):
        raise MachineryError(f"mutant extend_segments not rejected: {r.violated} {r.errors}")
    rep.extra.setdefault("mutants_killed", []).append("ShuffleSampler:extend_segments")
    # the int-mode truncation shows at design level too: strict separation fails in the spec that truncates like the code
    r = tlc.run("ShuffleSampler", CFG.format(variant="none", sep="Separated", **unis[2]), label="int mode strict separation",
                workers=8, timeout=600, coverage=False)
    rep.extra["int_mode_strict_separation_fails_in_spec"] = "Separated" in r.violated
    # unbounded bounds / distance / number of pivots: the bookkeeping invariant is inductive (Apalache); not with the pre-fix subtraction
    out = {"base": tlc.apalache("ShuffleInd", "Init", "IndInv", 0), "step": tlc.apalache("ShuffleInd", "IndInitFixed", "IndInv", 1),
           "pre_fix_subtraction": tlc.apalache("ShuffleInd", "IndInitBuggy", "IndInv", 1)}
    rep.extra["apalache_inductive"] = out
    if out["base"] == "Error" or out["step"] == "Error":
        raise MachineryError(f"the pivot bookkeeping invariant is not inductive in ShuffleInd.tla: {out}")
    if out["step"] == "NoError" and out["pre_fix_subtraction"] == "Error":
        rep.extra.setdefault("mutants_killed", []).append("ShuffleInd(Apalache):extend_segments")


class UniformProbe:
    def __init__(self):
        self.log = None
        self.orig = np.random.uniform

    def __enter__(self):
        probe = self

        def uniform(*a, **kw):
            v = probe.orig(*a, **kw)
            if probe.log is not None and np.isscalar(v):
                probe.log.append(float(v))
            return v
        np.random.uniform = uniform
        return self

    def __exit__(self, *a):
        np.random.uniform = self.orig


def hetero_reference(pa, rng):
    """One annotator with long units, the others with short ones, on a short line; returns (reference, the long annotator):
    a ground truth WITHOUT the long annotator has a much smaller average unit length than the reference."""
    from pyannote.core import Segment
    n_ann = rng.randint(3, 5)
    span = rng.choice([12, 16, 24])
    long_one = rng.randrange(n_ann)
    c = pa.Continuum()
    for a in range(n_ann):
        c.add_annotator(f"r{a}")
        for _ in range(rng.randint(2, 4)):
            s = rng.randint(0, span)
            c.add(f"r{a}", Segment(s, s + (rng.randint(span // 2, span) if a == long_one else 1)), rng.choice(LABELS))
    return c, f"r{long_one}"


def random_reference(pa, rng, int_grid, small=False):
    """small: the whole reference on a scale of a few time units at most (times are multiples of 0.01, units well below 1 long):
    nothing in the statement depends on the unit of time"""
    from pyannote.core import Segment
    n_ann = rng.randint(2, 5)
    c = pa.Continuum()
    span = rng.choice([10, 20, 40, 80])
    if small:
        for a in range(n_ann):
            c.add_annotator(f"r{a}")
            for _ in range(rng.randint(0 if a else 1, 5)):
                s = rng.randint(0, span * 4)
                e = s + rng.randint(1, span)
                c.add(f"r{a}", Segment(round(s * 0.01, 2), round(e * 0.01, 2)), rng.choice(LABELS))
        if rng.random() < 0.3:
            c.reset_bounds()
        return c
    hetero = rng.random() < 0.35       # one annotator with much longer units than the others (ground-truth subsets then differ
    long_one = rng.randrange(n_ann)    # from the whole reference in their average unit length)
    for a in range(n_ann):
        name = f"r{a}"
        c.add_annotator(name)
        for _ in range(rng.randint(0 if a else 1, 5)):
            if hetero:
                s = rng.randint(0, span)
                e = s + (rng.randint(span // 3, span // 2 + 1) if a == long_one else 1)
            elif int_grid:
                s = rng.randint(0, span)
                e = s + rng.randint(1, max(1, span // 4))
            else:
                s = rng.randint(0, span * 4) / 4
                e = s + rng.randint(1, span) / 4
            c.add(name, Segment(s, e), rng.choice(LABELS))
    if rng.random() < 0.3:
        c.reset_bounds()
    return c


def fx(x):
    return int(round(float(x) * K))


def record_samples(pa, rng, count, rep):
    recs, metas = [], []
    labs = {None: 0, "x": 1, "y": 2, "zz": 3}
    prev = {}
    with UniformProbe() as probe:
        while len(recs) < count:
            mode = rng.choice(["int_pivot", "float_pivot"])
            ref = random_reference(pa, rng, int_grid=rng.random() < 0.5, small=(mode == "float_pivot" and rng.random() < 0.3))
            anns = list(ref.annotators)
            gt = None
            if rng.random() < 0.5 and len(anns) > 2:
                gt = sorted(rng.sample(anns, rng.randint(2, len(anns))))
            if rng.random() < 0.15:
                # ground truth = the annotators with SHORT units of a reference whose average is dominated by one annotator's
                # long units: the separation is half the average unit length OF THE REFERENCE
                ref, long_one = hetero_reference(pa, rng)
                anns = list(ref.annotators)
                gt = sorted(a for a in anns if a != long_one)
            # four times in ten the sampler object of an earlier reference (same pivot type) is initialised again on this one:
            # the references share annotator names, nothing of the earlier one may show in the samples
            if rng.random() < 0.4 and prev.get(mode) is not None:
                sampler = prev[mode]
            else:
                sampler = pa.ShuffleContinuumSampler(pivot_type=mode)
            prev[mode] = sampler
            try:
                sampler.init_sampling(ref, gt)
            except AssertionError:
                continue
            gta = gt or anns
            if all(len(ref[a]) == 0 for a in gta):
                continue      # every candidate source empty: the sampler's retry loop could not end
            np.random.seed(rng.randint(0, 2 ** 31 - 1))
            for _ in range(rng.randint(1, 4)):
                probe.log = []
                try:
                    smp = sampler.sample_from_continuum
                except Exception as ex:
                    probe.log = None
                    rep.violation("shuffle.raises", {"exception": repr(ex), "pivot_type": mode, "bounds": list(ref.bounds),
                                                     "reference": {a: [[u.segment.start, u.segment.end, u.annotation] for u in ref[a]] for a in anns}})
                    recs.append(None)
                    break
                draws = probe.log
                probe.log = None
                lo, hi = ref.bounds
                rec = {"mode": 1 if mode == "int_pivot" else 0, "K": K, "lo": fx(lo), "hi": fx(hi),
                       "dist": fx(ref.avg_length_unit / 2), "tol": 2,
                       "gt": [[[fx(u.segment.start), fx(u.segment.end), labs[u.annotation]] for u in ref[a]] for a in gta],
                       "sample": [[[fx(u.segment.start), fx(u.segment.end), labs[u.annotation]] for u in smp[a]]
                                  for a in sorted(smp.annotators, key=lambda s: int(s.split()[-1]) if s.split()[-1].isdigit() else 0)],
                       "uniforms": [int(__import__("math").floor(float(x) * K)) for x in draws]}      # floor: int(x) <= x < int(x) + 1 stays exact
                # int pivots on a reference whose times are exact in 1/1000: the arithmetic is exact, no tolerance (ties at the
                # upper bound are then decided, not don't-care)
                vals = [lo, hi] + [x for a in gta for u in ref[a] for x in (u.segment.start, u.segment.end)]
                # (the sample's own times too: when no room is left the library falls back on a plain uniform draw, a
                # fraction even in int mode - the case the statement excludes with "as long as the continuum is long enough")
                vals += [x for a in smp.annotators for u in smp[a] for x in (u.segment.start, u.segment.end)]
                if mode == "int_pivot" and all(abs(v * K - round(v * K)) < 1e-9 for v in vals):
                    rec["tol"] = 0
                recs.append(rec)
                metas.append({"pivot_type": mode, "bounds": [lo, hi], "ground_truth": gta, "avg_length_unit": ref.avg_length_unit,
                              "reference": {a: [[u.segment.start, u.segment.end, u.annotation] for u in ref[a]] for a in anns},
                              "sample": {a: [[u.segment.start, u.segment.end, u.annotation] for u in smp[a]] for a in smp.annotators},
                              "uniform_draws": draws, "sample_annotators": list(smp.annotators)})
                rep.case(key=json.dumps([rec["gt"], rec["sample"]]))
        recs_n = 0
    return [r for r in recs if r is not None], metas


def judge(recs, label="TraceShuffle"):
    path = scratch() / f"shuffle-{random.getrandbits(32):08x}.json"
    path.write_text(json.dumps({"recs": recs}))
    res = tlc.run("TraceShuffle", "SPECIFICATION Spec\nCONSTRAINT Verdicts\n", label=label, env={"TRACE_FILE": str(path)},
                  workers=16, timeout=1200, coverage=False)
    path.unlink(missing_ok=True)
    if res.errors or res.violated:
        raise MachineryError(f"TraceShuffle did not run cleanly: {res.errors} {res.violated}\n{res.out[-2000:]}")
    done, verdicts = set(), {}
    for p in res.printed:
        if "done" in p:
            done.add(p["done"] - 1)
        elif "verdict" in p:
            verdicts.setdefault(p["tid"] - 1, set()).add(p["verdict"])
    if done != set(range(len(recs))):
        raise MachineryError(f"TraceShuffle judged {len(done)} of {len(recs)} records")
    return res, verdicts


def classify(rec, names):
    names = set(names)
    if rec["mode"] == 1:
        # the truncation of int(): separation / lower bound missed by less than one time unit
        names -= {"ObsPivotInBoundsStrict"} if "ObsPivotInBounds" not in names else set()
        if names and names <= {"ObsSeparated", "ObsPivotInBoundsStrict"} and "ObsSeparatedUpToTruncation" not in names:
            return "shuffle.int_pivot.truncation"
    else:
        names.discard("ObsSeparatedUpToTruncation") if "ObsSeparated" in names else None
    if not names:
        return None
    return "shuffle." + "+".join(sorted(names))


def run(tier, rep):
    pa = import_repo()
    rng = random.Random(seed() * 1000003 + 16)
    quick = tier == "quick"
    rep.rule = "samples of the real sampler from random references (2-5 annotators, ground-truth subsets, both pivot types); distinct = (ground truth units, sample)"
    rep.assumptions += ["times are compared in fixed point (1/1000) with a tolerance of 2/1000",
                        "numpy's uniform/choice are only observed (probe on np.random.uniform), not trusted for any law"]
    l1(rep, tier)
    recs, metas = record_samples(pa, rng, 400 if quick else 8000, rep)
    B = 2000
    ambiguous = [0]
    for i in range(0, len(recs), B):
        res, verdicts = judge(recs[i:i + B], label=f"TraceShuffle batch {i // B}")
        rep.add_tlc(res)
        for k, names in verdicts.items():
            if "Ambiguous" in names:      # too many ways of assigning the logged pivots to EMPTY sampled annotators: pivot clauses not judged
                ambiguous[0] += 1
                names = set(names) - {"Ambiguous"}
            key = classify(recs[i + k], names)
            if key:
                rep.violation(key, {"clauses": sorted(names), "meta": metas[i + k]})
    rep.traces += len(recs)
    rep.sample({"record": recs[0], "meta": {k: v for k, v in metas[0].items() if k != "reference"}})
    rep.extra["samples_too_ambiguous_for_the_pivot_clauses"] = ambiguous[0]
    if ambiguous[0] * 10 > len(recs):
        raise MachineryError(f"vacuity: {ambiguous[0]} of {len(recs)} samples too ambiguous to judge their pivots")
    rep.extra["samples_by_mode"] = {"int_pivot": sum(r["mode"] for r in recs), "float_pivot": sum(1 - r["mode"] for r in recs)}


def replay(path, rep):
    d = json.loads(open(path).read())
    print(json.dumps(d["detail"], indent=1)[:6000])
