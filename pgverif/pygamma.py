"""PyGamma.tla - the whole measure composed (GammaRun's program with data: Align's optimum per job, the documented
sample-count rule) - and its binding to the code (part of C05; also run by C06 for the schedules).

L1  TLC, all interleavings of 2 workers on tiny pools: PyGamma refines GammaRun (GammaRunSafe), the collected values are the
    script's values in draw order, the count is max(n, N_req) of the first batch, gamma <= 1, = 1 iff the input's optimum
    is 0, = 0 when every sample has the input's disorder; mutant collect_as_completed must break ValuesInDrawOrder.
L2  spec -> code: TLC (1 worker) prints every finished scenario - input instance, the instances the sampler returned in
    draw order, n, precision, mode - with the spec's values (observed, chance sequence, gamma as a fraction, number of
    samples).  Each scenario is run through the real compute_gamma with a SCRIPTED sampler that returns those instances
    realised as continua (one category per unit, one precomputed matrix for all instances); the code's values must be the
    spec's.
"""
import json
import random

import numpy as np

from . import tlc
from .common import MachineryError, import_repo, seed

CFG = """SPECIFICATION PGSpec
CONSTANTS
 N = {n}
 MaxExtra = {maxextra}
 HasPrecision = {hasprec}
 Workers = {workers}
 Variant = "{variant}"
 EmitSchedules = FALSE
 Refs <- {refs}
 Pool <- {pool}
 Prec <- {prec}
 Mode = "{mode}"
 L = 12
 EmitScenarios = {emit}
CONSTRAINT EmitS
INVARIANT ValuesInDrawOrder
INVARIANT CountExact
INVARIANT CountPlain
INVARIANT GammaLeOne
INVARIANT OneIffPerfect
INVARIANT ZeroOnSelf
INVARIANT ScheduleFree
INVARIANT CountOK
INVARIANT NoExtraWithoutPrecision
PROPERTY GammaRunSafe
{live}
"""
ACTIONS = ["PGNext"]
PRECS = {"Half": 0.5, "Quarter": 0.25}


def cfg(**kw):
    d = dict(n=2, maxextra=1, hasprec="TRUE", workers="{1, 2}", variant="none", refs="TinyRefs", pool="TinyPool", prec="Half",
             mode="best", emit="FALSE", live="PROPERTY PGTerminates")
    d.update(kw)
    return CFG.format(**d)


def l1(rep, tier):
    runs = [dict(), dict(hasprec="FALSE", mode="soft", workers="{1, 2, 3}")]
    if tier == "thorough":
        runs += [dict(n=3, maxextra=2), dict(n=2, maxextra=2, prec="Quarter", mode="soft"), dict(n=3, maxextra=1, refs="QuickRefs", workers="{1, 2}")]
    for u in runs:
        res = tlc.run("MC_PyGamma", cfg(**u), label=f"PyGamma {u}", workers=16, timeout=1800)
        if res.violated:
            raise MachineryError(f"PyGamma {u}: spec violates {res.violated}\n{res.trace_text[:2500]}")
        tlc.require(res, actions=ACTIONS)
        rep.add_tlc(res)
    r = tlc.run("MC_PyGamma", cfg(variant="collect_as_completed", live=""), label="PyGamma mutant collect_as_completed", workers=8,
                timeout=600, coverage=False)
    if not ({"ValuesInDrawOrder", "ScheduleFree"} & set(r.violated)):
        raise MachineryError(f"PyGamma mutant collect_as_completed not rejected: {r.violated} {r.errors}")
    rep.extra.setdefault("mutants_killed", []).append("PyGamma:collect_as_completed")


def scenarios(rep, tier):
    out = []
    quick = tier == "quick"
    big = dict(refs="QuickRefs" if quick else "MoreRefs", pool="QuickPool" if quick else "MorePool")
    mid = dict(refs="QuickRefs" if quick else "MoreRefs", pool="QuickPool" if quick else "MidPool")
    runs = [dict(big, hasprec="FALSE", mode="best", n=2), dict(big, hasprec="TRUE", mode="best", n=2, maxextra=2),
            dict(big, hasprec="TRUE", mode="soft", n=2, maxextra=2, prec="Quarter" if not quick else "Half"),
            dict(mid, hasprec="FALSE", mode="soft", n=3 if not quick else 1)]
    if not quick:
        runs += [dict(mid, hasprec="TRUE", mode="best", n=3, maxextra=2, prec="Quarter"), dict(mid, hasprec="TRUE", mode="best", n=3, maxextra=3)]
    for u in runs:
        u = dict(u, workers="{1}", emit="TRUE", live="")
        res = tlc.run("MC_PyGamma", cfg(**u), label=f"PyGamma scenarios {u['mode']} n={u['n']} prec={u['hasprec']}", workers=16, timeout=3000,
                      heap="8g")
        if res.violated or res.errors:
            raise MachineryError(f"PyGamma scenarios: {res.violated} {res.errors}\n{res.trace_text[:2000]}")
        tlc.require(res, actions=ACTIONS)
        rep.add_tlc(res)
        got = [p for p in res.printed if "scenario" in p]
        if not got:
            raise MachineryError("PyGamma emitted no scenario")
        for p in got:
            p["scenario"]["precname"] = u.get("prec", "Half")
        out += got
    return out


class Realiser:
    """All instances of a batch of scenarios realised with ONE dissimilarity: every unit of every instance has its own
    category, the matrix holds D / delta_empty inside an instance (and 1 across instances, never looked at)."""

    def __init__(self, pa, insts, scale=2):
        from sortedcontainers import SortedSet
        self.pa, self.scale = pa, scale
        self.keys = {}
        names = []
        for inst in insts:
            k = json.dumps(inst, sort_keys=True)
            if k in self.keys:
                continue
            idx = len(self.keys)
            self.keys[k] = idx
            for a in range(inst["n"]):
                for i in range(inst["sizes"][a]):
                    names.append(f"k{idx:03d}a{a}u{i}")
        cats = SortedSet(names)
        pos = {n: i for i, n in enumerate(cats)}
        m = np.ones((len(cats), len(cats)), dtype=np.float32)
        np.fill_diagonal(m, 0.0)
        des = {inst["de"] for inst in insts}
        if len(des) != 1:
            raise MachineryError("instances with several delta_empty values in one batch")
        de = des.pop()
        for k, idx in self.keys.items():
            inst = json.loads(k)
            for a in range(inst["n"]):
                for b in range(a + 1, inst["n"]):
                    for i in range(inst["sizes"][a]):
                        for j in range(inst["sizes"][b]):
                            v = inst["D"][a][b][i][j] / de
                            x, y = pos[f"k{idx:03d}a{a}u{i}"], pos[f"k{idx:03d}a{b}u{j}"]
                            m[x, y] = m[y, x] = v
        self.d = pa.PrecomputedCategoricalDissimilarity(cats, m, delta_empty=de / scale)

    def continuum(self, inst):
        from pyannote.core import Segment
        idx = self.keys[json.dumps(inst, sort_keys=True)]
        c = self.pa.Continuum()
        for a in range(inst["n"]):
            c.add_annotator(f"ann{a + 1}")
            for i in range(inst["sizes"][a]):
                c.add(f"ann{a + 1}", Segment(10.0 * i, 10.0 * i + 1.0), f"k{idx:03d}a{a}u{i}")
        return c


def make_scripted(pa):
    class ScriptedSampler(pa.sampler.AbstractContinuumSampler):
        """Returns the continua of a script, one per draw (what TLC chose for the k-th position of the RNG stream)."""

        def __init__(self, script):
            super().__init__()
            self.script, self.k, self.overrun = script, 0, 0

        @property
        def sample_from_continuum(self):
            self._has_been_init()
            self.k += 1
            if self.k > len(self.script):
                self.overrun += 1
                return self.script[-1]
            return self.script[self.k - 1]
    return ScriptedSampler


def judge_scenario(rep, real, Scripted, sc, want, stats):
    """Run one TLC scenario through compute_gamma and compare with the spec's values."""
    L = sc["l"] * real.scale          # the spec's X = disorder * L on the cost scale (delta_empty = scale)
    T = sc["n"] + sc["extra"]
    ref = real.continuum(sc["ref"])
    script = [real.continuum(i) for i in sc["script"]]
    sampler = Scripted(script)
    prec = None if sc["prec"][0] == 0 else sc["prec"][0] / sc["prec"][1]
    key = json.dumps([sc["ref"]["sizes"], [i["sizes"] for i in sc["script"]], want["obs"], want["chance"], sc["mode"], sc["prec"]])
    rep.case(key=key, nontrivial=sc["extra"] > 0 or want["den"] > 0)
    stats["second_batch"] += sc["extra"] > 0
    stats["three_annotators"] += sc["ref"]["n"] == 3
    detail = {"scenario": sc, "spec_result": want}
    first_sum = sum(want["chance"][:sc["n"]])
    if first_sum == 0 and prec is not None:
        stats["degenerate"] += 1           # CV of an all-zero first batch is 0/0: outside the rule (named deviation)
        return
    try:
        res = ref.compute_gamma(real.d, n_samples=sc["n"], precision_level=prec, sampler=sampler, soft=sc["mode"] == "soft")
        got_chance = [float(a.disorder) for a in res.chance_alignments]
        got_obs = float(res.observed_disorder)
        got_exp = float(res.expected_disorder)
        got_gamma = float(res.gamma) if want["den"] > 0 else None
    except Exception as ex:
        rep.violation("pygamma.raises", dict(detail, exception=repr(ex)))
        return
    rep.traces += 1
    detail["code"] = {"n_chance": len(got_chance), "draws": sampler.k, "observed": got_obs, "chance": got_chance, "expected": got_exp,
                      "gamma": got_gamma}
    if sc["boundary"]:
        stats["boundary_skipped"] += 1     # N_req is an exact integer: a float may land on either side
    else:
        if len(got_chance) != T:
            rep.violation("pygamma.count", detail)
            return
        if sampler.k != T:
            rep.violation("pygamma.draws", detail)
            return
    if not near(got_obs, want["obs"] / L):
        rep.violation("pygamma.observed", detail)
        return
    m = min(len(got_chance), len(want["chance"]))
    # as a multiset when the counts agree (C05 does not fix the ORDER in which the chance alignments are held; C06 does)
    gc, wc = (sorted(got_chance), sorted(want["chance"])) if len(got_chance) == len(want["chance"]) else (got_chance, want["chance"])
    if any(not near(gc[k], wc[k] / L) for k in range(m)):
        rep.violation("pygamma.chance_values", detail)
        return
    if len(got_chance) == T:
        if not near(got_exp, want["den"] / (L * T)):
            rep.violation("pygamma.expected", detail)
            return
        if want["den"] > 0 and not near(got_gamma, want["num"] / want["den"]):
            rep.violation("pygamma.gamma", detail)
            return
    if ref.num_units != sum(sc["ref"]["sizes"]) or any(c.num_units != sum(i["sizes"]) for c, i in zip(script, sc["script"])):
        rep.violation("pygamma.inputs_changed", detail)


def near(x, want, tol=2e-5):
    return abs(x - want) <= tol * max(1.0, abs(want))


def l2(rep, pa, tier, rng):
    scen = scenarios(rep, tier)
    cap = 500 if tier == "quick" else 20000
    if len(scen) > cap:
        # keep every scenario with a second batch, thin the others
        second = [s for s in scen if s["scenario"]["extra"] > 0]
        rest = [s for s in scen if s["scenario"]["extra"] == 0]
        rng.shuffle(rest)
        rng.shuffle(second)
        scen = second[:cap // 2] + rest[:cap - min(len(second), cap // 2)]
    insts = []
    for s in scen:
        insts.append(s["scenario"]["ref"])
        insts += s["scenario"]["script"]
    real = Realiser(pa, insts)
    Scripted = make_scripted(pa)
    stats = {"scenarios": len(scen), "second_batch": 0, "boundary_skipped": 0, "degenerate": 0, "three_annotators": 0}
    for s in scen:
        judge_scenario(rep, real, Scripted, s["scenario"], s["result"], stats)
    rep.extra["pygamma"] = stats
    rep.sample({"layer": "L2 PyGamma", "scenario": scen[len(scen) // 2]})
    if stats["second_batch"] == 0:
        raise MachineryError("vacuity: no PyGamma scenario with a second batch")


def run(tier, rep, pa=None):
    pa = pa or import_repo()
    rng = random.Random(seed() * 1000003 + 55)
    l1(rep, tier)
    l2(rep, pa, tier, rng)


def replay_scenario(detail, rep):
    """Re-run a stored scenario on the current tree."""
    pa = import_repo()
    sc, want = detail["scenario"], detail["spec_result"]
    real = Realiser(pa, [sc["ref"]] + sc["script"])
    stats = {"second_batch": 0, "boundary_skipped": 0, "degenerate": 0, "three_annotators": 0}
    judge_scenario(rep, real, make_scripted(pa), sc, want, stats)
    for key, d in rep.violations:
        print("on the current tree:", key, json.dumps(d.get("code")))
    if not rep.violations:
        print("on the current tree: the scenario gives the spec's values")
