"""C07: large candidate lists crossing the buffer-growth boundaries."""


def growth_records(pa, rng, quick):
    return []
