"""C07: candidate lists that cross the buffer-growth boundaries of _get_all_valid_alignments
(initial capacity 10 000 entries, then 15 000, 22 500, 33 750)."""
import random

from . import alignrec as ar

G_SCALE = 8


def table_instance(rng, sizes, de, values, weights):
    """An abstract instance with a random dyadic table (scaled by G_SCALE)."""
    n = len(sizes)
    D = [[[] for _ in range(n)] for _ in range(n)]
    for a in range(n):
        for b in range(a + 1, n):
            D[a][b] = [[rng.choices(values, weights)[0] * de // 2 for _ in range(sizes[b])] for _ in range(sizes[a])]
    return {"n": n, "sizes": sizes, "D": D, "de": de}


def expected_candidates(inst):
    """How many tuples the cut lets through, counted from the abstract table (the vacuity guard below must not depend on what
    the code under test returns)."""
    import itertools
    n, sizes, D, de = inst["n"], inst["sizes"], inst["D"], inst["de"]
    crit = (n * (n - 1) // 2) * de * n
    count = 0
    for t in itertools.product(*[range(s + 1) for s in sizes]):
        if all(t[a] == sizes[a] for a in range(n)):
            continue
        cost = 0
        for a in range(n):
            for b in range(a + 1, n):
                cost += de if (t[a] == sizes[a] or t[b] == sizes[b]) else D[a][b][t[a]][t[b]]
        if cost <= crit:
            count += 1
    return count


def growth_records(pa, rng, quick):
    # (sizes, delta_empty (x8), pair values in half delta_empty units, weights): mostly below the cut, some above
    # quick: 11 025 tuples (first growth at 10 000) and 22 801 tuples (growths at 10 000 and 15 000; > 20 000 candidates)
    specs = [([104, 104], 8, [0, 1, 2, 3, 4, 5, 6], [5, 5, 5, 5, 4, 0.6, 0.6]),
             ([150, 150], 16, [0, 1, 2, 3, 4, 6], [5, 5, 5, 5, 3, 0.8])]
    if not quick:
        specs += [([125, 125], 8, [0, 1, 2, 3, 4, 5], [4, 4, 4, 4, 2, 1]),             # 15 876 tuples: second growth (15 000)
                  ([160, 160], 16, [0, 1, 2, 3, 4, 6], [4, 4, 4, 4, 2, 1]),            # 25 921 tuples: third growth (22 500)
                  ([29, 29, 29], 8, [0, 1, 2, 3, 4, 6, 8], [3, 3, 3, 3, 2, 1, 1]),     # 27 000 tuples, 3 annotators
                  ([12, 12, 12, 12], 8, [0, 2, 4, 6, 8, 10], [2, 3, 3, 2, 1, 1]),      # 28 561 tuples, 4 annotators
                  ([7, 7, 7, 7, 7], 4, [0, 2, 4, 6, 8, 12, 16], [2, 3, 3, 2, 1, 1, 1])]  # 32 768 tuples, 5 annotators
    recs = []
    for sizes, de, values, weights in specs:
        inst = table_instance(rng, sizes, de, values, weights)
        c, d = ar.realise_table(pa, inst, G_SCALE)
        dis, tup = d.valid_alignments(c)
        # a minimal alignment object (every unit alone) carries the record; only ObsCands is judged on it
        anns = list(c.annotators)
        units = ar.units_by_annotator(c)
        uas = []
        for a, us in enumerate(units):
            for u in us[:1]:
                uas.append(pa.UnitaryAlignment([(anns[b], u if b == a else None) for b in range(len(anns))]))
        al = pa.Alignment(uas, c)
        al.compute_disorder(d)
        rec = ar.make_record(pa, c, d, al, inst["D"], de, G_SCALE, "cover", 1, search=False, band=0, with_recompute=False,
                             cands=(dis, tup), meta={"family": "growth", "sizes": sizes, "candidates": int(len(dis)),
                                                     "expected_candidates": expected_candidates(inst),
                                                     "tuples": int(__import__("math").prod(s + 1 for s in sizes))})
        recs.append(rec)
    need = [10000, 15000, 20000] if quick else [10000, 15000, 20000, 22500]
    top = max(r["_meta"]["expected_candidates"] for r in recs)
    for b in need:
        if not any(r["_meta"]["expected_candidates"] > b for r in recs):
            from .common import MachineryError
            raise MachineryError(f"growth instances do not cross the {b} boundary (max {top})")
    return recs


def planted_records(pa, rng, quick, backends=("CBC",)):
    """C02 beyond the reach of any search: instances with more than 10 000 (15 000, 20 000) candidates whose optimum is known BY
    CONSTRUCTION - unit i of the first annotator and unit i of the second are at distance 0, every other pair between half and
    twice delta_empty (so every pair is a candidate) - an alignment of cost 0 exists and no cost is negative, hence the minimum
    is 0 (handed to TraceAlign as the model's optimum)."""
    recs = []
    for k in ([104] if quick else [104, 125, 150]):
        de = 8
        D = [[[], [[0 if i == j else rng.choice([4, 8, 12, 16]) for j in range(k)] for i in range(k)]], [[], []]]
        inst = {"n": 2, "sizes": [k, k], "D": D, "de": de}
        c, d = ar.realise_table(pa, inst, G_SCALE)
        for be in backends:
            with ar.backend(be):
                al = c.get_best_alignment(d)
            rec = ar.make_record(pa, c, d, al, D, de, G_SCALE, "partition", 1, search=False, band=0, with_recompute=False, modelopt=0,
                                 want_backend="GLPK_MI" if be != "CBC" else "CBC", got_backend=ar.last_solver() or "",
                                 meta={"family": "planted optimum", "sizes": [k, k], "candidates_expected": k * k + 2 * k, "backend": be})
            recs.append(rec)
    return recs
