"""C03, object life cycle: the disorder values carried by Alignment / UnitaryAlignment OBJECTS under any history of
compute_disorder / .disorder / setters, two Alignment objects sharing their UnitaryAlignment objects, two dissimilarities.

L1  MC_AlignObj.tla: TLC explores every history on a small instance (FreshAgree, Invalidated, LazyTotal); two mutants of the
    design must be rejected, and the code's stale-total deviation must be reachable.
L3  random histories are run on real objects (tables realised exactly as precomputed categorical matrices), every event is
    logged with its outcome, return value and projected state, and TraceAlignObj.tla judges each event by named clauses.
"""
import json
import random

from . import alignrec as ar
from . import tlc
from .common import MachineryError, scratch

SCALE = 16
F = 64
CLAUSES_STATEMENT = {"ObsReturn", "ObsUdState", "ObsOutcome"}          # C03: carried values follow the definition
CLAUSES_BEYOND = {"ObsMeanUnits", "ObsCounts"}                         # accessors the statement does not mention

MC_CFG = """SPECIFICATION Spec
CONSTANTS Variant = "{variant}"
 Computed = {computed}
 Emit = {emit}
{props}
"""
GOOD = "INVARIANT TypeOK\nINVARIANT Fresh\nPROPERTY Invalidated\nPROPERTY LazyTotal\n"


def l1(rep, quick):
    for computed in (("FALSE",) if quick else ("FALSE", "TRUE")):
        res = tlc.run("MC_AlignObj", MC_CFG.format(variant="code", computed=computed, props=GOOD, emit="FALSE"),
                      label=f"MC_AlignObj computed={computed}", workers=16, timeout=1500)
        if res.violated:
            raise MachineryError(f"MC_AlignObj: spec violates {res.violated}\n{res.trace_text[:2000]}")
        tlc.require(res, actions=["DoCompute", "DoReadTot", "DoReadUd", "DoSetUd", "DoSetTuple", "DoUCompute"])
        rep.add_tlc(res)
    for variant, props, expect in (("total_kept_when_set", "INVARIANT Fresh\n", "Fresh"),
                                   ("setter_keeps_value", "PROPERTY Invalidated\n", "Invalidated"),
                                   ("code", "INVARIANT NoStaleTotal\n", "NoStaleTotal")):
        r = tlc.run("MC_AlignObj", MC_CFG.format(variant=variant, computed="FALSE", props=props, emit="FALSE"), label=f"AlignObj mutant {variant}",
                    workers=8, timeout=600, coverage=False)
        if not any(expect in str(v) for v in r.violated):
            raise MachineryError(f"AlignObj: {variant} should violate {expect}: {r.violated} {r.errors}")
        rep.extra.setdefault("mutants_killed", []).append(f"MC_AlignObj:{variant}:{expect}")


def _random_instance(rng):
    n = rng.choice([2, 2, 3, 3, 4, 5])
    maxu = {2: 3, 3: 3, 4: 2, 5: 2}[n]
    sizes = [rng.randint(1, maxu) for _ in range(n)]
    insts = []
    for _ in range(2):
        de = rng.choice([16, 32])
        D = [[[] for _ in range(n)] for _ in range(n)]
        for a in range(n):
            for b in range(a + 1, n):
                D[a][b] = [[rng.choice([0, 1, 3, 8, 16, 21, 40, 64]) for _ in range(sizes[b])] for _ in range(sizes[a])]
        insts.append({"n": n, "sizes": sizes, "D": D, "de": de})
    return insts


def _random_tuple(rng, sizes, full=False):
    while True:
        t = [rng.randrange(s) if (full or rng.random() < 0.75) else s for s in sizes]
        if any(x != s for x, s in zip(t, sizes)):
            return t


def _r64(x, c2n):
    v = float(x) * c2n * SCALE * F
    if v != v or abs(v) > 1e9:
        return -999999
    return int(round(v))


def histories(pa, rng, count, length):
    """Run `count` random histories on real objects; returns the records for TraceAlignObj."""
    pairs = [_random_instance(rng) for _ in range(count)]
    real1 = ar.realise_batch(pa, [p[0] for p in pairs], SCALE)
    real2 = ar.realise_batch(pa, [p[1] for p in pairs], SCALE)
    recs = []
    for (i1, i2), (c, d1), (_, d2) in zip(pairs, real1, real2):
        n, sizes = i1["n"], i1["sizes"]
        c2n = n * (n - 1) // 2
        anns = list(c.annotators)
        units = ar.units_by_annotator(c)
        ds = {1: d1, 2: d2}

        def ntuple(t):
            slots = [(anns[a], units[a][t[a]] if t[a] < sizes[a] else None) for a in range(n)]
            rng.shuffle(slots)         # slots listed in any order
            return slots

        computed = rng.random() < 0.3
        att = [rng.random() < 0.5, rng.random() < 0.5]
        if computed:
            base = c.get_best_alignment(d1)                 # a library-returned alignment: carries d1's values
            uas = list(base.unitary_alignments)
            tuples = [[(s[1] if s[1] >= 0 else sizes[s[0] - 1]) for s in sorted(ar.tuple_slots(c, ua, units))] for ua in uas]
            att[0] = True
            obj1 = base
        else:
            tuples = [_random_tuple(rng, sizes) for _ in range(rng.randint(1, 4))]
            uas = [pa.UnitaryAlignment(ntuple(t)) for t in tuples]
            obj1 = pa.Alignment(uas, c if att[0] else None)
        tot2 = -1
        if rng.random() < 0.4:
            tot2 = rng.randint(0, 200)
        # the second object is a SoftAlignment a third of the time (its compute_disorder is code of its own)
        cls2 = pa.alignment.SoftAlignment if rng.random() < 0.35 else pa.Alignment
        obj2 = cls2(obj1.unitary_alignments, c if att[1] else None,
                    disorder=None if tot2 < 0 else tot2 / (c2n * SCALE))
        if obj2.unitary_alignments is obj1.unitary_alignments:
            pass                                                 # (the constructor copies the list; the objects are shared)
        objs = {1: obj1, 2: obj2}
        cur = [list(t) for t in tuples]
        ev = []
        for _ in range(length):
            op = rng.choice(["compute", "compute", "readtot", "readtot", "readud", "setud", "settuple", "ucompute"])
            e = {"op": op, "o": 1, "k": 1, "d": 1, "v": 0, "t": cur[0], "out": "ok", "ret": -1}
            k = rng.randrange(len(cur))
            ualist = obj1.unitary_alignments
            try:
                if op == "compute":
                    e["o"], e["d"] = rng.choice([1, 2]), rng.choice([1, 2])
                    e["ret"] = _r64(objs[e["o"]].compute_disorder(ds[e["d"]]), c2n)
                elif op == "readtot":
                    e["o"] = rng.choice([1, 2])
                    try:
                        e["ret"] = _r64(objs[e["o"]].disorder, c2n)
                    except ValueError:
                        e["out"] = "raise"
                elif op == "readud":
                    e["k"] = k + 1
                    try:
                        e["ret"] = _r64(ualist[k].disorder, c2n)
                    except ValueError:
                        e["out"] = "raise"
                elif op == "setud":
                    e["k"], e["v"] = k + 1, rng.randint(0, 300)
                    ualist[k].disorder = e["v"] / (c2n * SCALE)
                elif op == "settuple":
                    t = _random_tuple(rng, sizes, full=rng.random() < 0.4)
                    e["k"], e["t"] = k + 1, t
                    ualist[k].n_tuple = ntuple(t)
                    cur[k] = list(t)
                else:
                    full = [j for j, t in enumerate(cur) if all(x < s for x, s in zip(t, sizes))]
                    if not full:
                        continue
                    k = rng.choice(full)
                    e["k"], e["d"] = k + 1, rng.choice([1, 2])
                    e["ret"] = _r64(ualist[k].compute_disorder(ds[e["d"]]), c2n)
            except Exception as ex:                              # any other exception is an outcome the model never has
                e["out"] = f"exception {type(ex).__name__}"
                e["_exc"] = repr(ex)[:300]
            # projected state, through public accessors only
            sud = []
            for ua in obj2.unitary_alignments:
                try:
                    sud.append(_r64(ua.disorder, c2n))
                except ValueError:
                    sud.append(-1)
            mu = []
            for o in (1, 2):
                try:
                    mu.append(int(round(float(objs[o].avg_num_annotations_per_annotator) * n)))
                except Exception:
                    mu.append(-1)
            e["sud"], e["mu"] = sud, mu
            try:
                e["nua"], e["nann"] = int(obj2.num_unitary_alignments), int(obj1.num_annotators)
            except Exception:
                e["nua"], e["nann"] = -1, -1
            ev.append(e)
            if e["out"].startswith("exception"):
                break
        recs.append({"n": n, "sizes": sizes, "Ds": [i1["D"], i2["D"]], "des": [i1["de"], i2["de"]],
                     "att": [1 if x else 0 for x in att], "computed": 1 if computed else 0, "tot2": tot2,
                     "tuples": tuples, "tol": 6, "ev": ev})
    return recs


def judge(recs, label):
    path = scratch() / f"alignobj-{random.getrandbits(32):08x}.json"
    clean = [{k: v for k, v in r.items() if not k.startswith("_")} for r in recs]
    for r in clean:
        r["ev"] = [{k: v for k, v in e.items() if not k.startswith("_")} for e in r["ev"]]
    path.write_text(json.dumps({"recs": clean}))
    res = tlc.run("TraceAlignObj", "SPECIFICATION Spec\nCONSTRAINT Verdicts\n", label=label,
                  env={"TRACE_FILE": str(path)}, workers=16, timeout=1200, coverage=False)
    path.unlink(missing_ok=True)
    if res.errors or res.violated:
        raise MachineryError(f"TraceAlignObj did not run cleanly: {res.errors} {res.violated}\n{res.out[-2500:]}")
    done, verdicts = set(), {}
    for p in res.printed:
        if "done" in p:
            done.add(p["done"] - 1)
        elif "verdict" in p:
            verdicts.setdefault((p["tid"] - 1, p["l"] - 1), set()).add(p["verdict"])
    if done != set(range(len(recs))):
        raise MachineryError(f"TraceAlignObj completed {len(done)} of {len(recs)} histories\n{res.out[-1500:]}")
    return res, verdicts


J0 = {"n": 2, "sizes": [2, 1], "Ds": [[[[], [[1], [3]]], [[], []]], [[[], [[2], [0]]], [[], []]]], "des": [2, 4], "att": [False, True]}


def l2(rep, pa, rng, quick):
    """spec -> code: transitions of MC_AlignObj (TLC simulation, every successor printed) are replayed on real objects put
    into the transition's SOURCE state through the public constructor / setters; reply and destination state must match."""
    edges = {}

    def on_print(p):
        if isinstance(p, dict) and "src" in p:
            key = json.dumps([p["src"], p["op"], p["args"]], sort_keys=True)
            if key not in edges:
                edges[key] = p
    res = tlc.run("MC_AlignObj", MC_CFG.format(variant="code", computed="FALSE", props="", emit="TRUE"), label="MC_AlignObj simulate (edges)",
                  workers=8, timeout=900, simulate=f"num={150 if quick else 1500}", depth=12, coverage=False, on_print=on_print)
    if res.errors or res.violated:
        raise MachineryError(f"MC_AlignObj simulation: {res.errors} {res.violated}\n{res.out[-1500:]}")
    rep.add_tlc(res)
    todo = sorted(edges)
    rng.shuffle(todo)
    todo = todo[:2500 if quick else 40000]
    if len(todo) < 500:
        raise MachineryError(f"MC_AlignObj simulation printed only {len(todo)} distinct transitions")
    n, sizes = J0["n"], J0["sizes"]
    real = [ar.realise_table(pa, {"n": n, "sizes": sizes, "D": J0["Ds"][k], "de": J0["des"][k]}, 1) for k in (0, 1)]
    c = real[0][0]
    ds = {1: real[0][1], 2: real[1][1]}
    anns = list(c.annotators)
    units = ar.units_by_annotator(c)

    def ntuple(t):
        slots = [(anns[a], units[a][t[a]] if t[a] < sizes[a] else None) for a in range(n)]
        rng.shuffle(slots)
        return slots

    def val(pair):       # carried pair <<S, M>> -> the library's float (C(2,2) = 1, scale 1)
        return None if pair[0] < 0 else pair[0] * n / pair[1]

    def close(x, y):
        return x is not None and y is not None and abs(float(x) - y) <= 1e-5 * max(1.0, abs(y))
    per_op = {}
    for key in todo:
        e = edges[key]
        src, dst, op, args = e["src"], e["dst"], e["op"], e["args"]
        uas = [pa.UnitaryAlignment(ntuple(t)) for t in src["tuples"]]
        for ua, v in zip(uas, src["ud"]):
            if v >= 0:
                ua.disorder = float(v)
        objs = {1: pa.Alignment(uas, None, disorder=val(src["tot"][0]))}
        cls2 = pa.alignment.SoftAlignment if rng.random() < 0.35 else pa.Alignment       # SoftAlignment.compute_disorder is code of its own
        objs[2] = cls2(objs[1].unitary_alignments, c, disorder=val(src["tot"][1]))
        ualist = objs[1].unitary_alignments
        out, ret = "ok", None
        try:
            if op == "compute":
                ret = objs[args[0]].compute_disorder(ds[args[1]])
            elif op == "readtot":
                ret = objs[args[0]].disorder
            elif op == "readud":
                ret = ualist[args[0] - 1].disorder
            elif op == "setud":
                ualist[args[0] - 1].disorder = float(args[1])
            elif op == "settuple":
                ualist[args[0] - 1].n_tuple = ntuple(args[1:])
            elif op == "ucompute":
                ret = ualist[args[0] - 1].compute_disorder(ds[args[1]])
        except ValueError:
            out = "raise"
        except Exception as ex:
            out = f"exception {type(ex).__name__}: {ex!r}"[:200]
        problems = []
        if out != dst["out"]:
            problems.append(f"outcome {out}, spec {dst['out']}")
        elif out == "ok" and dst["ret"][0] >= 0 and not close(ret, val(dst["ret"])):
            problems.append(f"returned {ret}, spec {val(dst['ret'])}")
        for k, (ua, v) in enumerate(zip(objs[2].unitary_alignments, dst["ud"])):
            try:
                got = ua.disorder
            except ValueError:
                got = None
            if (v < 0) != (got is None) or (v >= 0 and not close(got, float(v))):
                problems.append(f"unitary alignment {k + 1} carries {got}, spec {None if v < 0 else v}")
        for o in (1, 2):                       # read last: .disorder caches
            want = val(dst["tot"][o - 1])
            if want is not None:
                try:
                    got = objs[o].disorder
                except ValueError:
                    got = None
                if not close(got, want):
                    problems.append(f"object {o} carries total {got}, spec {want}")
            elif any(v < 0 for v in dst["ud"]):
                try:
                    objs[o].disorder
                    problems.append(f"object {o}: .disorder answers although a unitary value is missing and no total is cached")
                except ValueError:
                    pass
        per_op[op] = per_op.get(op, 0) + 1
        rep.case(key="alignobj-edge " + key)
        if problems:
            rep.violation("alignobj.replay." + op, {"operation": op, "args": args, "source_state": src, "spec_destination": dst, "problems": problems})
    rep.traces += len(todo)
    rep.extra["alignobj_transitions_replayed"] = per_op
    for op in ("compute", "readtot", "readud", "setud", "settuple", "ucompute"):
        if not per_op.get(op):
            raise MachineryError(f"alignobj replay: no {op} transition")


def run(rep, pa, rng, quick):
    l1(rep, quick)
    l2(rep, pa, rng, quick)
    recs = histories(pa, rng, 120 if quick else 1500, 14 if quick else 20)
    B = 400
    ops = {}
    for i in range(0, len(recs), B):
        part = recs[i:i + B]
        res, verdicts = judge(part, f"TraceAlignObj batch {i // B}")
        rep.add_tlc(res)
        rep.traces += len(part)
        for j, r in enumerate(part):
            rep.case(key=json.dumps(["alignobj", r["sizes"], r["tuples"], [[e["op"], e["o"], e["k"], e["d"]] for e in r["ev"]]]))
            for e in r["ev"]:
                ops[e["op"]] = ops.get(e["op"], 0) + 1
            first = sorted((l, v) for (t, l), v in verdicts.items() if t == j)
            if not first:
                continue
            l, names = first[0]
            detail = {"event_index": l, "event": r["ev"][l], "clauses": sorted(names),
                      "history_before": [[e["op"], e["o"], e["k"], e["d"], e["out"], e["ret"]] for e in r["ev"][:l]],
                      "instance": {k: r[k] for k in ("n", "sizes", "Ds", "des", "att", "computed", "tot2", "tuples")}}
            bad = sorted(set(names) & CLAUSES_STATEMENT)
            if bad:
                rep.violation("alignobj." + "+".join(bad), detail)
            else:
                rep.beyond("alignobj." + "+".join(sorted(names)), detail)
    rep.extra["alignobj_events_by_operation"] = ops
    if recs:
        rep.sample({"alignobj_history": [[e["op"], e["o"], e["k"], e["d"], e["out"], e["ret"]] for e in recs[0]["ev"]]})
    for op in ("compute", "readtot", "readud", "setud", "settuple", "ucompute"):
        if not ops.get(op):
            raise MachineryError(f"alignobj: operation {op} never exercised")
