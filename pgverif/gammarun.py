"""C05 / C06 - gamma = 1 - observed/expected over the requested samples; seeded results independent of the schedule.

L1  TLC: GammaRun.tla - all interleavings of the main thread (draw, submit, collect in order, decide on a second batch)
    and 1..3 pool workers: the chance sequence is a function of the seed alone, exactly N + extra samples are drawn and
    aligned, nothing is drawn without a precision level, termination; mutants: sampling inside the job, collection in
    completion order.
L2  spec -> code (C06): the job orders TLC reaches (`completed` at Return) drive a schedule-controlled executor put in
    place of ThreadPoolExecutor in pygamma_agreement.continuum (jobs run on real distinct threads, one at a time, in that
    order); plus real pools of 1/2/4/16 workers, repetition in one process and fresh processes with other hash seeds.
    All result vectors of one (configuration, seed) must be bit-identical.
L3  code -> spec (C05): every run is recorded (executor events, sampler draws with thread ids, algorithm used per
    continuum) and judged by TraceGamma.tla, including the required sample count with exact big-number arithmetic.
"""
import json
import os
import random
import subprocess
import sys
import threading
from concurrent.futures import Future, ThreadPoolExecutor
from fractions import Fraction

import numpy as np

from . import align, tlc
from .common import MachineryError, import_repo, scratch, seed, REPO, VERIF

CFG = """SPECIFICATION Spec
CONSTANTS
 N = {n}
 MaxExtra = {maxextra}
 HasPrecision = {hasprec}
 Workers = {workers}
 Variant = "{variant}"
 EmitSchedules = {emit}
CONSTRAINT EmitC
INVARIANT ScheduleFree
INVARIANT CountOK
INVARIANT NoExtraWithoutPrecision
INVARIANT BestIsInput
INVARIANT CollectedOnlyDone
PROPERTY Terminates
PROPERTY ImplementsAtomic
"""

_seq = [0]
_seq_lock = threading.Lock()
MAIN = threading.main_thread().ident


def next_seq():
    with _seq_lock:
        _seq[0] += 1
        return _seq[0]


class Recorder:
    """What one compute_gamma run did, as seen from outside the library."""

    def __init__(self):
        self.objs = []          # keeps sampled continua alive so ids stay unique
        self.ids = {}
        self.draws = []
        self.submits = []
        self.algo = {}
        self.lock = threading.Lock()
        self.input = None

    def sid(self, obj):
        with self.lock:
            k = id(obj)
            if k not in self.ids:
                self.ids[k] = len(self.ids)
                self.objs.append(obj)
            return self.ids[k]


REC = [None]                 # the active recorder (None: not recording)
LAST_SAMPLER = [None]
POOL = {"kind": "real", "workers": None, "order": None}


class RecordingPool(ThreadPoolExecutor):
    """Installed as pygamma_agreement.continuum.ThreadPoolExecutor by the harness."""

    def __init__(self, max_workers=None, **kw):
        super().__init__(max_workers=POOL["workers"] or max_workers, **kw)

    def submit(self, fn, *args, **kw):
        rec = REC[0]
        if rec is not None and getattr(fn, "__name__", "").endswith("alignment_job"):
            rec.submits.append({"seq": next_seq(), "sid": rec.sid(args[1]), "fn": fn.__name__})
        return super().submit(fn, *args, **kw)


class SchedFuture:
    def __init__(self, pool, idx, fn, args, kw):
        self.pool, self.idx, self.fn, self.args, self.kw = pool, idx, fn, args, kw
        self.done, self.value, self.exc = False, None, None

    def run(self):
        def body():
            try:
                self.value = self.fn(*self.args, **self.kw)
            except BaseException as ex:      # noqa
                self.exc = ex
        t = threading.Thread(target=body)    # a real, distinct thread per job; one job at a time
        t.start()
        t.join()
        self.done = True

    def result(self, timeout=None):
        self.pool.run_until(self)
        if self.exc is not None:
            raise self.exc
        return self.value


class SchedPool:
    """Schedule-driven stand-in for ThreadPoolExecutor: jobs run in the order POOL['order'] dictates
    (a priority list of submission indices), never before they are submitted, at the latest when awaited."""

    def __init__(self, max_workers=None, **kw):
        self.jobs = []
        # what concurrent.futures.ThreadPoolExecutor exposes: code reading it must not fail under the stand-in
        self._max_workers = max_workers if max_workers else min(32, (os.cpu_count() or 1) + 4)

    def __enter__(self):
        return self

    def __exit__(self, *a):
        for j in self.pending_in_order():
            j.run()
        return False

    def submit(self, fn, *args, **kw):
        rec = REC[0]
        if rec is not None and getattr(fn, "__name__", "").endswith("alignment_job"):
            rec.submits.append({"seq": next_seq(), "sid": rec.sid(args[1]), "fn": fn.__name__})
        f = SchedFuture(self, len(self.jobs), fn, args, kw)
        self.jobs.append(f)
        if POOL["order"] == "eager":
            f.run()
        return f

    def pending_in_order(self):
        order = POOL["order"]
        pend = [j for j in self.jobs if not j.done]
        if order in (None, "eager", "fifo"):
            return pend
        if order == "lifo":
            return pend[::-1]
        if order == "lazy":
            return pend
        rank = {idx: r for r, idx in enumerate(order)}
        return sorted(pend, key=lambda j: (rank.get(j.idx, 10 ** 6 + j.idx)))

    def run_until(self, fut):
        if POOL["order"] == "lazy":
            if not fut.done:
                fut.run()
            return
        while not fut.done:
            self.pending_in_order()[0].run()


def install(pa, kind):
    pa.continuum.ThreadPoolExecutor = RecordingPool if kind == "real" else SchedPool
    POOL["kind"] = kind


def make_samplers(pa):
    class RecStat(pa.StatisticalContinuumSampler):
        @property
        def sample_from_continuum(self):
            c = pa.StatisticalContinuumSampler.sample_from_continuum.fget(self)
            _log_draw(self, c, "stat")
            return c

    class RecShuffle(pa.ShuffleContinuumSampler):
        @property
        def sample_from_continuum(self):
            c = pa.ShuffleContinuumSampler.sample_from_continuum.fget(self)
            _log_draw(self, c, "shuffle")
            return c
    return RecStat, RecShuffle


def LABRANK(x):
    return 0 if x is None else 1 + sorted(align.LABELS + ["zz2"]).index(x) if x in align.LABELS else 99


def _log_draw(sampler, c, kind):
    rec = REC[0]
    if rec is None:
        return
    # what the harness itself passed to compute_gamma (not the sampler's internal attributes)
    gt, ref = rec.gt, rec.ref
    anns = list(c.annotators)
    rec.gtsigs = [sorted([fx(u.segment.duration), LABRANK(u.annotation)] for u in ref[a]) for a in gt] if kind == "shuffle" else []
    rec.draws.append({"seq": next_seq(), "thread": 0 if threading.get_ident() == MAIN else 1, "sid": rec.sid(c),
                      "nunits": int(c.num_units), "nann": len(anns),
                      "sigs": [sorted([fx(u.segment.duration), LABRANK(u.annotation)] for u in c[a]) for a in anns] if kind == "shuffle" else [],
                      "anns": [gt.index(a) + 1 if a in gt else 0 for a in anns] if kind == "stat" else []})


class AlgoProbe:
    def __init__(self, pa):
        self.C = pa.Continuum
        self.orig = (self.C.get_best_alignment, self.C.get_best_soft_alignment, self.C.get_fast_alignment)
        self.tls = threading.local()

    def install(self):
        probe = self
        o_best, o_soft, o_fast = self.orig

        def wrap(orig, name):
            def f(self_c, *a, **kw):
                d = getattr(probe.tls, "d", 0)
                probe.tls.d = d + 1
                try:
                    return orig(self_c, *a, **kw)
                finally:
                    probe.tls.d = d
                    rec = REC[0]
                    if d == 0 and rec is not None:
                        rec.algo[id(self_c)] = name
            return f
        self.C.get_best_alignment = wrap(o_best, "best")
        self.C.get_best_soft_alignment = wrap(o_soft, "soft")
        self.C.get_fast_alignment = wrap(o_fast, "fast")

    def uninstall(self):
        self.C.get_best_alignment, self.C.get_best_soft_alignment, self.C.get_fast_alignment = self.orig


def fx(x):
    return int(round(float(x) * 10000))


def limbs(n):
    out = []
    while n > 0:
        out.append(n % 10000)
        n //= 10000
    return out


DEGENERATE = [0]


def one_run(pa, c, d, cfg, samplers, sampler=None):
    """Run compute_gamma under the current executor; returns (GammaResults or None, trace record, exception).
    `sampler`: an already used sampler object to be reused (a fresh one otherwise)."""
    RecStat, RecShuffle = samplers
    rec = Recorder()
    rec.sid(c)        # the input continuum is sample id 0
    rec.ref, rec.gt = c, sorted(cfg["gt"]) if cfg["gt"] else list(c.annotators)
    if sampler is None:
        sampler = RecStat() if cfg["sampler"] == "stat" else RecShuffle(pivot_type=cfg["sampler"])
    LAST_SAMPLER[0] = sampler
    np.random.seed(cfg["seed"])
    REC[0] = rec
    try:
        # C06: the ground-truth annotators may be given as a plain set, whose iteration order follows the process hash seed
        gt_arg = set(cfg["gt"]) if (cfg["gt"] and cfg.get("gt_form") == "set") else cfg["gt"]
        res = c.compute_gamma(d, n_samples=cfg["n"], precision_level=cfg["precision"], ground_truth_annotators=gt_arg,
                              sampler=sampler, fast=cfg["mode"] == "fast", soft=cfg["mode"] == "soft")
    except Exception as ex:
        REC[0] = None
        return None, None, ex
    finally:
        REC[0] = None
    import math
    # values no fixed-point encoding can carry: with an expected disorder of exactly 0 (every sample aligned at no cost) the ratio
    # is outside the statement (named deviation, never met so far); otherwise a non-finite result contradicts "gamma <= 1 ... =
    # 1 - observed/expected" by itself and is reported like an exception of the computation
    finite = [float(res.observed_disorder), float(res.expected_disorder), float(res.gamma)] + [float(a.disorder) for a in res.chance_alignments]
    if any(not math.isfinite(v) or abs(v) > 1e5 for v in finite):
        if float(res.expected_disorder) == 0.0:
            DEGENERATE[0] += 1
            return res, None, None
        return None, None, ValueError(f"non-finite or absurd value in the results: observed={finite[0]} expected={finite[1]} gamma={finite[2]}")

    def entry(al):
        cont = al.continuum
        return {"sid": rec.sid(cont), "algo": rec.algo.get(id(cont), "none"), "cls": type(al).__name__, "dis": fx(al.disorder),
                "bwsinf": 1 if math.isinf(cont.best_window_size) else 0}
    chance = [entry(a) for a in res.chance_alignments]
    first = [float(a.disorder) for a in res.chance_alignments[:cfg["n"]]]
    cv2 = Fraction(0)
    if cfg["precision"] is not None and np.mean(first) != 0:
        cv = float(np.std(first) / np.mean(first))
        cv2 = Fraction(cv * cv).limit_denominator(10 ** 9)
    p = cfg["precision"]
    if isinstance(p, str):
        p = {"high": 0.01, "medium": 0.02, "low": 0.1}[p]
    pf = Fraction(p).limit_denominator(10000) if p is not None else Fraction(1)
    g = res.gamma
    rlo, rhi, rexc = 0, 0, ""
    r6 = {"rlo6": 0, "rhi6": 0, "obs6": 0, "exp6": 0, "r6ok": 0}      # the same at 1e-6 (the 1e-4 grid is too coarse when 1 - bound is small)
    try:
        lo_, hi_ = res.approx_gamma_range
        rlo, rhi = fx(lo_), fx(hi_)
        vals6 = [float(lo_), float(hi_), float(res.observed_disorder), float(res.expected_disorder)]
        if all(abs(v) < 2000 for v in vals6):
            r6 = dict(zip(["rlo6", "rhi6", "obs6", "exp6"], [int(round(v * 1000000)) for v in vals6]), r6ok=1)
    except Exception as ex:
        rexc = type(ex).__name__
    trace = {"n": cfg["n"], "hasprec": 0 if cfg["precision"] is None else 1, "pa": pf.numerator, "pb": pf.denominator,
             "cvnum": limbs(cv2.numerator), "cvden": limbs(cv2.denominator), "mode": cfg["mode"],
             "sampler": "stat" if cfg["sampler"] == "stat" else "shuffle", "ngt": len(cfg["gt"] or c.annotators),
             "draws": rec.draws, "submits": rec.submits, "chance": chance, "best": entry(res.best_alignment),
             "gtsigs": getattr(rec, "gtsigs", []),
             "observed": fx(res.observed_disorder), "expected": fx(res.expected_disorder), "gamma": fx(g),
             "identical": 1 if cfg.get("identical") else 0, "rlo": rlo, "rhi": rhi, "rexc": rexc, **r6}
    return res, trace, None


def result_vector(res, d, pa, with_cat):
    vec = [float(res.observed_disorder)] + [float(a.disorder) for a in res.chance_alignments] + [float(res.gamma)]
    if with_cat:
        vec.append(float(res.gamma_cat))
        for cat in sorted(res.best_alignment.continuum.categories)[:3]:
            vec.append(float(res.gamma_k(cat)))
    return [float(x).hex() for x in vec]


def big_continuum(pa, rng):
    """Large enough for measure_best_window_size to find windowing advantageous (4x20, 5x12, 3x50)."""
    from pyannote.core import Segment
    n_ann, per = rng.choice([(4, 20), (5, 12), (3, 50)])
    c = pa.Continuum()
    for a in range(n_ann):
        t = 0
        for _ in range(per):
            t += rng.randint(0, 3)
            dur = rng.randint(1, 4)
            c.add(f"an{a}", Segment(t, t + dur), rng.choice(align.LABELS))
            t += dur
    return c


_DISSIMS = {}


def gen_config(pa, rng, quick, identical=False, force=None):
    force = force or {}
    n_ann, mu = rng.choice([(2, 4), (3, 3), (2, 6), (4, 2), (3, 4)])
    c = align.random_continuum(pa, rng, n_ann, mu, unlabelled=0.0, grid=rng.random() < 0.6, allow_empty=False)
    if identical:
        from pyannote.core import Segment
        c = pa.Continuum()
        units = [(rng.randint(0, 20), rng.randint(1, 6), rng.choice(align.LABELS)) for _ in range(rng.randint(1, 4))]
        for a in range(n_ann):
            for s, dur, lab in units:
                c.add(f"an{a}", Segment(s, s + dur), lab)
    mode = force.get("mode") or rng.choice(["exact", "exact", "soft", "fast"])
    sampler = force.get("sampler") or rng.choice(["stat", "stat", "int_pivot", "float_pivot"])
    if mode == "fast" and not identical and (force.get("big") or rng.random() < 0.5):
        c = big_continuum(pa, rng)
    if force.get("crowded"):
        # long units on a short line: the pivot exclusion zones use the continuum up, the sampler's fallback pivot is drawn
        from pyannote.core import Segment
        c = pa.Continuum()
        for a in range(5):
            for s0 in (0, 2, 4):
                c.add(f"an{a}", Segment(s0 + a % 2, s0 + a % 2 + rng.choice([8, 9, 10])), rng.choice(align.LABELS))
        n_ann = 5       # zones of 2 x 4.5 around each pivot on a line of 15: from the third pivot on there is no room left
    precision = rng.choice([None, None, "low", 0.3, 0.2, 0.5, 0.15] + ([] if quick else ["medium", 0.05]))
    anns = list(c.annotators)
    gt = None
    if len(anns) > 2 and (force.get("gt") or rng.random() < 0.4):
        gt = sorted(rng.sample(anns, rng.randint(2, len(anns))))
        if sampler != "stat" and all(len(c[a]) == 0 for a in gt):
            gt = None
    comb = rng.random() < 0.7
    dkey = ("comb", rng.choice([1, 3]), rng.choice([1, 2]), rng.choice([1.0, 1.0, 2.0])) if comb else ("pos", rng.choice([1.0, 0.5]))
    if dkey not in _DISSIMS:       # one object per parameter set (each new object is a JIT compilation numba never frees)
        _DISSIMS[dkey] = pa.CombinedCategoricalDissimilarity(alpha=dkey[1], beta=dkey[2], delta_empty=dkey[3]) if comb \
            else pa.PositionalSporadicDissimilarity(delta_empty=dkey[1])
    d = _DISSIMS[dkey]
    if len(c.annotators) >= 4 and c.num_units > 40 and precision not in (None, 0.5, 0.3):
        precision = 0.3
    n_samples = rng.choice([1, 2, 3, 5, 8])
    if force.get("second_batch"):
        # a precision level that the first batch of 3 samples practically never satisfies: a second batch is drawn
        precision, n_samples = 0.08, 3
    if force.get("crowded"):
        gt, n_samples = None, max(n_samples, 5)       # every annotator gets a pivot (4 pivots on a short line), several samples
    cfg = {"mode": mode, "sampler": sampler, "precision": precision, "n": n_samples, "gt": gt,
           "seed": rng.randint(0, 2 ** 31 - 1), "identical": identical, "combined": comb,
           "continuum": align.continuum_summary(c)}
    return c, d, cfg


def l1(rep, tier):
    runs = [dict(n=3, maxextra=2, hasprec="TRUE", workers="{1, 2}"), dict(n=2, maxextra=1, hasprec="FALSE", workers="{1, 2, 3}")]
    if tier == "thorough":
        runs += [dict(n=3, maxextra=2, hasprec="TRUE", workers="{1, 2, 3}"), dict(n=4, maxextra=1, hasprec="TRUE", workers="{1, 2}"),
                 dict(n=1, maxextra=3, hasprec="TRUE", workers="{1}")]
    orders = []
    for u in runs:
        res = tlc.run("GammaRun", CFG.format(variant="none", emit="TRUE", **u), label=f"GammaRun {u}", workers=8, timeout=1800)
        if res.violated:
            raise MachineryError(f"GammaRun {u}: spec violates {res.violated}\n{res.trace_text[:2500]}")
        tlc.require(res, actions=["SubmitBest", "Draw", "AwaitBest", "Await", "Decide", "Start", "Finish"])
        rep.add_tlc(res)
        for p in res.printed:
            if "completed" in p:
                orders.append(tuple(p["completed"]))
    for variant in ("draw_in_worker", "collect_as_completed"):
        r = tlc.run("GammaRun", CFG.format(variant=variant, emit="FALSE", n=3, maxextra=1, hasprec="TRUE", workers="{1, 2}"),
                    label=f"mutant {variant}", workers=8, timeout=600, coverage=False)
        if "ScheduleFree" not in r.violated and not any("ImplementsAtomic" in v for v in r.violated):
            raise MachineryError(f"mutant {variant} not rejected: {r.violated} {r.errors}")
        rep.extra.setdefault("mutants_killed", []).append(f"GammaRun:{variant}")
    return sorted(set(orders))


def judge(recs, groups, label):
    path = scratch() / f"gamma-{random.getrandbits(32):08x}.json"
    path.write_text(json.dumps({"recs": recs, "groups": groups}))
    res = tlc.run("TraceGamma", "SPECIFICATION Spec\nCONSTRAINT Verdicts\n", label=label, env={"TRACE_FILE": str(path)},
                  workers=8, timeout=1200, coverage=False)
    path.unlink(missing_ok=True)
    if res.errors or res.violated:
        raise MachineryError(f"TraceGamma did not run cleanly: {res.errors} {res.violated}\n{res.out[-2500:]}")
    done, verdicts = set(), {}
    for p in res.printed:
        if "done" in p:
            done.add(p["done"] - 1)
        elif "verdict" in p:
            verdicts.setdefault(p["tid"] - 1, set()).add(p["verdict"])
    if done != set(range(len(recs))):
        raise MachineryError(f"TraceGamma judged {len(done)} of {len(recs)} records\n{res.out[-1500:]}")
    return res, verdicts


BEYOND_CLAUSES = {"ObsRange"}      # approx_gamma_range is not part of C05's statement: a deviation there is a NOTE, never an alarm
C05_CLAUSES = {"ObsCount", "ObsNoExtraDraw", "ObsChanceFresh", "ObsSampleValid", "ObsMode", "ObsObserved", "ObsExpected",
               "ObsGamma", "ObsLeOne", "ObsIdentical"}
C06_CLAUSES = {"ObsSameAsFirst"}
# HOW reproducibility is achieved (samples drawn by the calling thread, before their job is submitted) is the design GammaRun.tla
# models, not part of C06's statement: a run that departs from it is a NOTE; what is judged is that the results are the same
C06_BEYOND = {"DrawInMainThread", "DrawBeforeSubmit", "ObsChanceOrder"}


def run_c05(tier, rep, pa):
    rng = random.Random(seed() * 1000003 + 5)
    quick = tier == "quick"
    l1(rep, tier)
    install(pa, "real")
    probe = AlgoProbe(pa)
    probe.install()
    samplers = make_samplers(pa)
    recs, metas = [], []
    try:
        count = 120 if quick else 2500
        while len(recs) < count:
            c, d, cfg = gen_config(pa, rng, quick, identical=rng.random() < 0.1)
            res, trace, ex = one_run(pa, c, d, cfg, samplers)
            if ex is not None:
                rep.violation("gamma.raises", {"exception": repr(ex), "config": {x: y for x, y in cfg.items() if not x.startswith("_")}})
                recs.append(None)
                continue
            if trace is None:          # degenerate run (expected disorder 0): outside the statement
                continue
            used_sampler = LAST_SAMPLER[0]
            recs.append(trace)
            metas.append(cfg)
            rep.case(key=json.dumps([cfg["continuum"], cfg["mode"], cfg["sampler"], str(cfg["precision"]), cfg["n"], cfg["gt"]]))
            if rng.random() < 0.25 and not cfg["identical"]:
                # the same sampler object used again, on the same continuum, now with all annotators / another subset
                anns = list(c.annotators)
                cfg2 = dict(cfg, gt=None if cfg["gt"] else (sorted(rng.sample(anns, 2)) if len(anns) > 2 else None),
                            seed=rng.randint(0, 2 ** 31 - 1), reused_sampler=True)
                res2, trace2, ex2 = one_run(pa, c, d, cfg2, samplers, sampler=used_sampler)
                if ex2 is not None:
                    rep.violation("gamma.raises", {"exception": repr(ex2), "config": {k: v for k, v in cfg2.items() if not k.startswith("_")}})
                elif trace2 is not None:
                    recs.append(trace2)
                    metas.append(cfg2)
                    rep.case(key=json.dumps([cfg2["continuum"], cfg2["mode"], cfg2["sampler"], "reuse", cfg2["gt"]]))
    finally:
        probe.uninstall()
    recs = [r for r in recs if r is not None]
    res, verdicts = judge(recs, [], "TraceGamma C05")
    rep.add_tlc(res)
    rep.traces += len(recs)
    for k, names in verdicts.items():
        if names & BEYOND_CLAUSES:
            rep.beyond("gamma." + "+".join(sorted(names & BEYOND_CLAUSES)),
                       {"config": {x: y for x, y in metas[k].items() if not x.startswith("_")},
                        "trace": {x: y for x, y in recs[k].items() if x not in ("draws", "submits", "chance", "gtsigs")}})
        bad = sorted(n for n in names if n in C05_CLAUSES)
        if bad:
            t = recs[k]
            rep.violation("gamma." + "+".join(bad), {"clauses": bad, "config": {x: y for x, y in metas[k].items() if not x.startswith("_")},
                                                     "trace": {x: y for x, y in t.items() if x not in ("draws", "submits", "chance")},
                                                     "chance_head": t["chance"][:8], "n_chance": len(t["chance"]), "n_draws": len(t["draws"])})
    rep.sample({"config": {x: y for x, y in metas[0].items() if not x.startswith("_")}, "trace_head": {x: (y[:4] if isinstance(y, list) else y) for x, y in recs[0].items()}})
    rep.extra["degenerate_runs_skipped"] = DEGENERATE[0]
    rep.extra["second_batches"] = sum(1 for r in recs if len(r["chance"]) > r["n"])
    rep.extra["runs_by_mode"] = {m: sum(1 for r in recs if r["mode"] == m) for m in ("exact", "soft", "fast")}
    if rep.extra["second_batches"] == 0:
        raise MachineryError("vacuity: no run needed a second batch")


def subprocess_vectors(configs_path, hashseed):
    env = dict(os.environ, PYTHONHASHSEED=str(hashseed), PYTHONPATH=f"{VERIF}:{REPO}")
    p = subprocess.Popen(["/venv/bin/python", "-W", "ignore", "-m", "pgverif.gammarun", str(configs_path)], env=env,
                         stdout=subprocess.PIPE, stderr=subprocess.PIPE, text=True)
    return p


def rebuild(pa, cfg):
    from pyannote.core import Segment
    c = pa.Continuum()
    for a, units in cfg["continuum"].items():
        c.add_annotator(a)
        for s, e, lab in units:
            c.add(a, Segment(s, e), lab)
    d = pa.CombinedCategoricalDissimilarity(alpha=cfg["alpha"], beta=cfg["beta"], delta_empty=cfg["de"]) if cfg["combined"] \
        else pa.PositionalSporadicDissimilarity(delta_empty=cfg["de"])
    return c, d


def run_c06(tier, rep, pa):
    rng = random.Random(seed() * 1000003 + 6)
    quick = tier == "quick"
    orders = l1(rep, tier)
    samplers = make_samplers(pa)
    probe = AlgoProbe(pa)
    probe.install()
    configs = []
    forced = [{"sampler": "int_pivot", "crowded": True}, {"mode": "fast", "big": True, "sampler": "stat"}, {"mode": "fast", "big": True, "sampler": "int_pivot"},
              {"sampler": "int_pivot", "gt": True}, {"sampler": "float_pivot", "gt": True}, {"mode": "soft"}, {"mode": "exact", "sampler": "stat", "gt": True},
              {"mode": "exact", "sampler": "stat", "second_batch": True}, {"mode": "exact", "sampler": "float_pivot", "second_batch": True}]
    for k in range(10 if quick else 40):
        c, d, cfg = gen_config(pa, rng, True, force=forced[k] if k < len(forced) else None)
        cfg.update(alpha=getattr(d, "alpha", 1), beta=getattr(d, "beta", 1), de=float(d.delta_empty))
        if cfg["precision"] in ("medium", 0.05):
            cfg["precision"] = 0.3
        if cfg["gt"]:
            cfg["gt_form"] = "set"        # same set, other hash seed => other iteration order: the result must not follow it
        configs.append(cfg)
    cpath = scratch() / "c06-configs.json"
    cpath.write_text(json.dumps(configs))
    procs = [(hs, subprocess_vectors(cpath, hs)) for hs in ([1, 12345] if quick else [0, 1, 12345, "random", 777, 31337])]
    recs, metas, groups = [], [], []
    try:
        for ci, cfg in enumerate(configs):
            c, d = rebuild(pa, cfg)
            results, labels = [], []
            # real pools
            for workers in ([1, 3, 16] if quick else [1, 2, 3, 4, 8, 16, None]):
                install(pa, "real")
                POOL["workers"] = workers
                # "however many workers there are": the machine's CPU count as the library sees it changes too
                real_cpu_count = os.cpu_count
                if workers is not None:
                    os.cpu_count = lambda w=workers: w
                try:
                    res, trace, ex = one_run(pa, c, d, cfg, samplers)
                    vec = None if ex is not None else result_vector(res, d, pa, cfg["combined"])
                finally:
                    os.cpu_count = real_cpu_count
                if ex is not None:
                    rep.violation("gamma.raises", {"exception": repr(ex), "config": cfg})
                    continue
                results.append(vec)
                labels.append(f"real pool workers={workers} (os.cpu_count patched)")
                if trace is not None:
                    recs.append(trace)
                    metas.append(dict(cfg, pool=labels[-1]))
            POOL["workers"] = None
            # repetition in one process
            for rep_i in range(2):
                res, trace, ex = one_run(pa, c, d, cfg, samplers)
                if ex is None:
                    results.append(result_vector(res, d, pa, cfg["combined"]))
                    labels.append(f"repeat {rep_i}")
            # schedule-driven executor: orders reached by TLC + canonical policies
            install(pa, "sched")
            scheds = ["fifo", "lifo", "lazy", "eager"] + [list(o) for o in rng.sample(orders, min(len(orders), 6 if quick else 25))]
            for k in range(2 if quick else 8):
                perm = list(range(0, cfg["n"] + 12))
                rng.shuffle(perm)
                scheds.append(perm)
            for order in scheds:
                POOL["order"] = order
                res, trace, ex = one_run(pa, c, d, cfg, samplers)
                if ex is not None:
                    rep.violation("gamma.raises", {"exception": repr(ex), "config": cfg, "schedule": order})
                    continue
                results.append(result_vector(res, d, pa, cfg["combined"]))
                labels.append(f"schedule {order}")
                if trace is not None:
                    recs.append(trace)
                    metas.append(dict(cfg, pool=labels[-1]))
                rep.case(key=json.dumps([ci, order]))
            install(pa, "real")
            groups.append({"results": results, "_labels": labels, "_cfg": cfg})
    finally:
        probe.uninstall()
        install(pa, "real")
        POOL["order"] = None
    # other processes / hash seeds
    for hs, p in procs:
        out, err = p.communicate(timeout=1800)
        if p.returncode != 0:
            raise MachineryError(f"subprocess PYTHONHASHSEED={hs} failed: {err[-1500:]}")
        vecs = json.loads(out.strip().splitlines()[-1])
        for g, v in zip(groups, vecs):
            if v is not None:
                g["results"].append(v)
                g["_labels"].append(f"fresh process PYTHONHASHSEED={hs}")
    clean_groups = [{"results": g["results"]} for g in groups]
    res, verdicts = judge(recs, clean_groups, "TraceGamma C06")
    rep.add_tlc(res)
    rep.traces += len(recs)
    for k, names in verdicts.items():
        if names & C06_BEYOND:
            rep.beyond("schedule." + "+".join(sorted(names & C06_BEYOND)), {"config": metas[k]})
        bad = sorted(n for n in names if n in C06_CLAUSES)
        if "ObsSameAsFirst" in bad:
            bad.remove("ObsSameAsFirst")
            for g in groups:
                diff = [lab for lab, r in zip(g["_labels"], g["results"]) if r != g["results"][0]]
                if diff:
                    rep.violation("schedule.result_differs", {"config": g["_cfg"], "first": g["_labels"][0], "differing": diff[:10],
                                                              "first_vector": [float.fromhex(x) for x in g["results"][0]][:8],
                                                              "other_vector": [float.fromhex(x) for x in g["results"][g["_labels"].index(diff[0])]][:8]})
        if bad:
            rep.violation("schedule." + "+".join(bad), {"clauses": bad, "config": metas[k]})
    rep.extra["configurations_with_a_second_batch"] = sum(1 for g in groups if g["results"] and len(g["results"][0]) > g["_cfg"]["n"] + 2 + (4 if g["_cfg"]["combined"] else 0))
    rep.extra["result_vectors_compared"] = sum(len(g["results"]) for g in groups)
    rep.extra["tlc_job_orders_available"] = len(orders)
    rep.sample({"config": configs[0], "environments": groups[0]["_labels"][:12], "vector_head": groups[0]["results"][0][:5]})


def run_property(pid, tier, rep):
    pa = import_repo()
    rep.rule = ("C05: random (continuum, mode, sampler, precision, n_samples, ground truth) configurations, one recorded run each; "
                "C06: per configuration one run per environment (pool size, schedule, repetition, process hash seed); distinct = configuration x environment")
    rep.assumptions += ["interleavings inside one job (numba kernels, cvxpy, CBC) are not modelled: the schedule space is whole jobs",
                        "CV^2 is passed to TLC as an exact rational approximation (denominator <= 1e9) of the float the library computes; a relative band of 1e-7 around ceil() is not judged"]
    if pid == "C05":
        from . import pygamma
        pygamma.run(tier, rep, pa)      # PyGamma.tla: the composed measure; TLC's scenarios run through the code with a scripted sampler
        run_c05(tier, rep, pa)
    else:
        run_c06(tier, rep, pa)


def main_subprocess(path):
    """Fresh-process side of C06: compute the result vectors of the given configurations."""
    pa = import_repo()
    configs = json.loads(open(path).read())
    samplers = make_samplers(pa)
    install(pa, "real")
    out = []
    for cfg in configs:
        c, d = rebuild(pa, cfg)
        res, trace, ex = one_run(pa, c, d, cfg, samplers)
        out.append(None if ex is not None else result_vector(res, d, pa, cfg["combined"]))
    print(json.dumps(out))


def replay(path, rep):
    d = json.loads(open(path).read())
    print(json.dumps(d["detail"], indent=1)[:6000])
    if d.get("key", "").startswith("pygamma."):
        from . import pygamma
        pygamma.replay_scenario(d["detail"], rep)


if __name__ == "__main__":
    main_subprocess(sys.argv[1])
