"""C13 - the continuum behaves as sorted unit sets per annotator under any history.

L1  TLC, exhaustive: MC_Continuum (bounded universe) with every invariant / action property; mutant
    variants of the spec must be rejected.
L2  spec -> code: TLC prints one JSON line per transition of the state graph; every transition is
    executed on real Continuum objects and the projected state compared with the spec's successor(s).
L3  code -> spec: long random histories on real objects (float times, odd labels) are recorded and
    judged by TraceContinuum.tla.
"""
import copy
import json
import random

from . import contmodel, histories, tlc
from .common import MachineryError, import_repo, seed

MC_CONST = """SPECIFICATION Spec
CONSTANTS
  Obj = {{1, 2}}
  Zero = 0
  EmitEdges = {emit}
  Mutant = "{mutant}"
  CarryAll = {carry}
  Annot = {{1, 2}}
  Times = {times}
  Labels = {labels}
  MaxUnits = {maxunits}
  MaxDepth = {depth}
  WithMany = {many}
CONSTRAINT Bound
"""
PROPS = """INVARIANT HeapWellFormed
INVARIANT CatsCover
INVARIANT BoundsEnclose
INVARIANT NoZeroLength
INVARIANT UnitsHaveAnnotator
INVARIANT EqIsEquivalence
INVARIANT SortedViewExists
INVARIANT ResetExact
PROPERTY RejectedIsNoOp
PROPERTY OneObjectPerCall
PROPERTY BoundsMonotone
"""
MUTANTS = {  # mutant -> a property that must be reported violated
    "copy_drops_cats": {"HeapWellFormed", "CatsCover"},
    "reset_last_in_order": {"ResetExact", "BoundsEnclose", "HeapWellFormed"},
    "remove_shrinks_bounds": {"BoundsMonotone"},
    "add_accepts_empty": {"NoZeroLength", "HeapWellFormed", "RejectedIsNoOp"},
}
ACTIONS = ["New", "Add", "AddMany", "AddAnnotator", "Remove", "Copy", "CopyFlush", "MergeInPlace", "MergeNew", "ResetBounds", "Drop"]

# concretisations of the abstract universe (order-preserving)
CONCRETE = [
    {"ann": {1: "a", 2: "b"}, "lab": {0: None, 1: "x", 2: "y"}, "time": lambda t: float(t)},
    {"ann": {1: "B", 2: "a"}, "lab": {0: None, 1: "", 2: " z"}, "time": lambda t: 2.25 * t},
    # ten hours into a recording, 20 ms apart: the times differ from the 7th significant digit on (0 stays 0: the library's
    # initial bounds are the literal 0.0)
    {"ann": {1: "a", 2: "b"}, "lab": {0: None, 1: "x", 2: "y"}, "time": lambda t: 0.0 if t == 0 else 36000.0 + 0.02 * t},
]


UNIV_A = {"times": "{0, 1, 2}", "labels": "{0, 1, 2}", "ntimes": 3, "many": "TRUE", "carry": "FALSE"}      # three labels incl. none
UNIV_B = {"times": "{0, 1, 2, 3}", "labels": "{0, 1}", "ntimes": 4, "many": "TRUE", "carry": "FALSE"}       # nested segments possible


def l1(rep, depth, univ, maxunits=3):
    cfg = MC_CONST.format(emit="FALSE", mutant="none", depth=depth, maxunits=maxunits, **univ) + PROPS
    res = tlc.run("MC_Continuum", cfg, label=f"MC_Continuum times={univ['times']} labels={univ['labels']} depth<={depth}",
                  workers=16, timeout=1500)
    if res.violated:
        # the design itself admits a bad state: that is a failure of the spec, not of the code
        raise MachineryError(f"spec violates its own property {res.violated}\n{res.trace_text[:3000]}")
    tlc.require(res, actions=ACTIONS, what="container actions")
    rep.add_tlc(res)


def l1_mutants(rep):
    rep.extra.setdefault("mutants_killed", [])
    for m, expect in MUTANTS.items():
        r = tlc.run("MC_Continuum", MC_CONST.format(emit="FALSE", mutant=m, depth=4, maxunits=2, **UNIV_B) + PROPS,
                    label=f"mutant {m}", workers=8, timeout=600, coverage=False)
        if not (set(r.violated) & expect or any(any(x in v for x in expect) for v in r.violated)):
            raise MachineryError(f"mutant {m} not rejected by the spec's properties: {r.violated} {r.errors}")
        rep.extra["mutants_killed"].append(m)


def apalache_inductive(rep):
    """Unbounded histories: Apalache checks that HeapWellFormed is an inductive invariant of the (recursion-free,
    typed) restatement spec/apalache/ContinuumInd.tla; a mutated copy (copy drops the categories) must fail."""
    import re
    import shutil
    import subprocess
    from .common import SPEC, scratch
    if shutil.which("apalache-mc") is None:
        rep.extra["apalache_inductive"] = "apalache-mc not available"
        return
    work = scratch() / "apalache"
    work.mkdir(exist_ok=True)
    src = (SPEC / "apalache" / "ContinuumInd.tla").read_text()
    (work / "ContinuumInd.tla").write_text(src)
    mut = src.replace("!.cats = LabelsInUse(heap[o]) \\cup extra]]", "!.cats = extra]]").replace("MODULE ContinuumInd ", "MODULE ContinuumIndMut ")
    (work / "ContinuumIndMut.tla").write_text(mut)
    out = {}
    for name, module, args in (("base", "ContinuumInd", ["--init=Init", "--length=0"]), ("step", "ContinuumInd", ["--init=IndInit", "--length=1"]),
                               ("mutant", "ContinuumIndMut", ["--init=IndInit", "--length=1"])):
        p = subprocess.run(["timeout", "600", "apalache-mc", "check", "--inv=IndInv", f"--out-dir={work}/out"] + args + [f"{module}.tla"],
                           cwd=str(work), stdout=subprocess.PIPE, stderr=subprocess.STDOUT, text=True)
        m = re.search(r"The outcome is: (\w+)", p.stdout)
        out[name] = m.group(1) if m else f"exit {p.returncode}"
    rep.extra["apalache_inductive"] = out
    if out["base"] == "Error" or out["step"] == "Error":
        raise MachineryError(f"HeapWellFormed is not inductive in ContinuumInd.tla: {out}")
    if out["base"] == "NoError" and out["step"] == "NoError" and out["mutant"] == "Error":
        rep.extra.setdefault("mutants_killed", []).append("ContinuumInd(Apalache):copy_drops_cats")


# ----------------------------------------------------------------------------- L2
def _key(heapjson):
    return json.dumps(heapjson, sort_keys=True)


def _canon(c):
    if c.get("absent"):
        return {"absent": True}
    return {"ann": sorted(c["ann"]), "units": sorted(map(tuple, c["units"])), "cats": sorted(c["cats"]),
            "lo": c["lo"], "hi": c["hi"]}      # (best_window_size is not part of C13's statement: not compared)


def abstract_heap(objs, nobj, inv):
    """Real objects -> the spec's heap representation (via the shared projection)."""
    heap = []
    problems = []
    for o in range(1, nobj + 1):
        if o not in objs:
            heap.append({"absent": True})
            continue
        p = contmodel.proj(objs[o])
        problems += [f"object {o}: {x}" for x in p["problems"]]
        try:
            units = [(inv["ann"][u[0]], inv["time"][u[1]], inv["time"][u[2]], inv["lab"][u[3]]) for u in p["units"]]
            c = {"ann": [inv["ann"][a] for a in p["ann"]], "units": units, "cats": [inv["lab"][x] for x in p["cats"]],
                 "lo": inv["time"][p["lo"]], "hi": inv["time"][p["hi"]]}
        except KeyError as ex:
            problems.append(f"object {o}: value outside the universe: {ex!r}")
            heap.append({"absent": False, "bad": repr(p)})
            continue
        # observable contracts that are part of the projection's canonical form
        if c["ann"] != sorted(c["ann"]) or len(set(c["ann"])) != len(c["ann"]):
            problems.append(f"object {o}: annotators not strictly sorted {c['ann']}")
        if units != sorted(set(units)):
            problems.append(f"object {o}: units not in strict (annotator,start,end,label) order {units}")
        if c["cats"] != sorted(set(c["cats"])):
            problems.append(f"object {o}: categories not strictly sorted {c['cats']}")
        if p["n"] != len(units) or p["len"] != len(c["ann"]) or p["bool"] != (1 if units else 0):
            problems.append(f"object {o}: counts n={p['n']} len={p['len']} bool={p['bool']}")
        for a, vs in p["views"]:
            want = [u for u in p["units"] if u[0] == a]
            if vs != want:
                problems.append(f"object {o}: continuum[{a!r}] = {vs} but iteration gives {want}")
        heap.append(_canon(c))
    # == / != between all live objects: equal iff same annotators and same units (an equivalence on (annotators, units))
    ids = sorted(objs)
    for i in ids:
        for j in ids:
            hi_, hj_ = heap[i - 1], heap[j - 1]
            if "bad" in hi_ or "bad" in hj_:
                continue
            want = hi_["ann"] == hj_["ann"] and hi_["units"] == hj_["units"]
            try:
                eqv, nev = (objs[i] == objs[j]), (objs[i] != objs[j])
            except Exception as ex:
                problems.append(f"objects {i} == {j} raised {ex!r}")
                continue
            if eqv != want or nev == want:
                problems.append(f"objects {i} == {j}: library says {eqv}, model says {want}")
    return heap, problems


def l2(rep, pa, depth, univ, maxunits=3, concretes=CONCRETE):
    cfg = MC_CONST.format(emit="TRUE", mutant="none", depth=depth, maxunits=maxunits, **univ)
    groups = {}      # src key -> {(op, args) -> set of (dst key, out)}
    first = []

    def collect(e):
        if "src" not in e:
            return
        if not first:
            first.append(e)
        src = _key([_canon(c) for c in e["src"]])
        dst = [_canon(c) for c in e["dst"]]
        args = tuple(tuple(sorted(map(tuple, a))) if isinstance(a, list) else a for a in e["args"])
        groups.setdefault(src, {}).setdefault((e["op"], args), set()).add((_key(dst), e["out"]))
    res = tlc.run("MC_Continuum", cfg, label=f"edges depth<={depth}", workers=16, timeout=3000, coverage=False,
                  heap="8g", on_print=collect)
    tlc.require(res)
    rep.add_tlc(res)
    if not groups:
        raise MachineryError("TLC emitted no edges")
    nobj = 2
    init = _key([{"absent": True}] * nobj)
    n_edges = n_nodes = 0
    for ci, conc in enumerate(concretes):
        times = {conc["time"](t): t for t in range(0, univ["ntimes"])}
        inv = {"ann": {v: k for k, v in conc["ann"].items()}, "lab": {v: k for k, v in conc["lab"].items()},
               "time": times}
        seen = {init}
        stack = [(init, {}, [])]
        while stack:
            skey, objs, path = stack.pop()
            n_nodes += 1
            for (op, args), outs in groups.get(skey, {}).items():
                objs2 = copy.deepcopy(objs)     # one deepcopy of the whole heap keeps any aliasing inside it
                ev = {"op": op, "args": _concrete_args(op, args, conc)}
                if op in ("add_timeline", "add_annotation"):
                    ev["items"] = [[conc["time"](i[0]), conc["time"](i[1]), conc["lab"].get(i[2])] for i in args[2]]
                out = histories.apply_event(pa, objs2, ev)
                heap, problems = abstract_heap(objs2, nobj, inv)
                hk = _key(heap)
                n_edges += 1
                rep.case(key=(skey, op, args), nontrivial=(op not in ("new", "drop")))
                if problems or (hk, out) not in outs:
                    rep.violation(f"replay.{op}", {
                        "layer": "L2 spec->code", "concretisation": ci, "path": path + [[op, list(args)]],
                        "path_concrete": [[o, _concrete_args(o, a, conc)] for o, a in path] + [[op, ev["args"]]],
                        "spec_allows": [[json.loads(d), o] for d, o in sorted(outs)][:4],
                        "code_gives": [heap, out], "problems": problems})
                    continue
                if hk not in seen and hk in groups:
                    seen.add(hk)
                    stack.append((hk, objs2, path + [[op, list(args)]]))
    rep.traces += n_edges
    rep.extra["l2_transitions_replayed"] = rep.extra.get("l2_transitions_replayed", 0) + n_edges
    rep.extra["l2_states_visited"] = rep.extra.get("l2_states_visited", 0) + n_nodes
    rep.sample({"layer": "L2", "example_edge": first[0] if first else None})


def _concrete_args(op, args, conc):
    out = []
    for k, v in zip(contmodel.ARGK[op], args):
        out.append({"o": lambda x: x, "i": lambda x: x, "a": conc["ann"].get, "t": conc["time"],
                    "l": conc["lab"].get}[k](v))
    return out


def l2_sim(rep, pa, num, depth, univ, conc=None):
    """Long behaviours: TLC -simulate walks the container model at random (categories carried as the library does);
    every behaviour is stepped through real objects, all live objects compared after every call."""
    conc = conc or CONCRETE[0]
    cfg = MC_CONST.format(emit="TRUE", mutant="none", depth=depth + 1, maxunits=4, **dict(univ, carry="TRUE"))
    nobj = 2
    times = {conc["time"](t): t for t in range(0, univ["ntimes"])}
    inv = {"ann": {v: k for k, v in conc["ann"].items()}, "lab": {v: k for k, v in conc["lab"].items()}, "time": times}
    init = _key([{"absent": True}] * nobj)
    st = {"objs": {}, "path": [], "behaviours": 0, "steps": 0, "broken": False, "src": None, "group": []}

    def take(e):
        """Execute the transition the random walk really took."""
        op = e["op"]
        args = tuple(tuple(sorted(map(tuple, a))) if isinstance(a, list) else a for a in e["args"])
        ev = {"op": op, "args": _concrete_args(op, args, conc)}
        if op in ("add_timeline", "add_annotation"):
            ev["items"] = [[conc["time"](i[0]), conc["time"](i[1]), conc["lab"].get(i[2])] for i in args[2]]
        out = histories.apply_event(pa, st["objs"], ev)
        heap, problems = abstract_heap(st["objs"], nobj, inv)
        st["path"].append([op, [list(a) if isinstance(a, tuple) else a for a in args]])
        st["steps"] += 1
        rep.case(key=("sim", st["behaviours"], len(st["path"])), nontrivial=op not in ("new", "drop"))
        if problems or heap != [_canon(c) for c in e["dst"]] or out != e["out"]:
            rep.violation(f"replay.sim.{op}", {"layer": "L2 spec->code (simulated behaviour)", "path": list(st["path"]), "spec_dst": e["dst"],
                                               "spec_out": e["out"], "code_gives": [heap, out], "problems": problems})
            st["broken"] = True

    def on_edge(e):
        # in simulation mode TLC prints EVERY successor of the state it is in, then moves to one of them: the walk is
        # reconstructed from consecutive groups (the next group's source is the destination that was chosen)
        if "src" not in e:
            return
        src = _key([_canon(c) for c in e["src"]])
        if src != st["src"]:
            chosen = [g for g in st["group"] if _key([_canon(c) for c in g["dst"]]) == src]
            if chosen and not st["broken"]:
                take(chosen[0])
            elif src == init or not chosen:
                st["objs"], st["path"], st["broken"] = {}, [], src != init
                if src == init:
                    st["behaviours"] += 1
            st["src"], st["group"] = src, []
        st["group"].append(e)
    res = tlc.run("MC_Continuum", cfg, label=f"simulate num={num} depth={depth}", workers=1, timeout=1800, coverage=False,
                  simulate=f"num={num}", depth=depth, on_print=on_edge)
    if res.errors:
        raise MachineryError(f"TLC simulation failed: {res.errors}\n{res.out[-1500:]}")
    rep.add_tlc(res)
    steps, behaviours = st["steps"], st["behaviours"]
    if steps < num:
        raise MachineryError(f"simulated behaviours could not be reconstructed ({steps} steps for {num} behaviours)")
    rep.traces += steps
    rep.extra["l2_simulated_behaviours"] = behaviours
    rep.extra["l2_simulated_steps"] = steps


# ----------------------------------------------------------------------------- L3
def l3(rep, pa, n_traces, length, batch=300, ops_weights=None, key_prefix="trace"):
    rng = random.Random(seed() * 7919 + 13)
    done = 0
    while done < n_traces:
        k = min(batch, n_traces - done)
        traces = [histories.record_history(pa, rng, length, ops_weights=ops_weights) for _ in range(k)]
        for tr in list(traces):
            bad = contmodel.observation_problems(tr)
            if bad:
                rep.violation(f"{key_prefix}.observe_raises.{tr[bad[0]]['op']}", {
                    "layer": "L3 code->spec", "event_index": bad[0], "problems": bad[1],
                    "history": [[e["op"], e["args"], e["out"]] for e in tr[:bad[0] + 1]]})
                traces.remove(tr)
        if not traces:
            done += k
            continue
        res, verdicts = contmodel.validate(traces, 4, workers=16)
        rep.add_tlc(res, label=f"TraceContinuum batch of {k}")
        rep.traces += k
        for tr in traces:
            for e in tr:
                rep.case(key=(e["op"], json.dumps(e["args"])), nontrivial=e["op"] not in ("new", "drop"))
        if done == 0:
            rep.sample({"layer": "L3", "history_head": [[e["op"], e["args"], e["out"]] for e in traces[0][:12]]})
        firsts = {}
        for t, l, name in verdicts:
            if name in contmodel.BEYOND:
                rep.beyond(f"{key_prefix}.{name}.{traces[t][l]['op']}", {"event_index": l, "history_tail": [[e["op"], e["args"]] for e in traces[t][max(0, l - 3):l + 1]]})
                continue
            firsts.setdefault(t, (l, name))
        for t, (l, name) in firsts.items():
            tr = traces[t]
            rep.violation(f"{key_prefix}.{name}.{tr[l]['op']}", {
                "layer": "L3 code->spec", "clause": name, "event_index": l,
                "history": [[e["op"], e["args"], e["out"]] for e in tr[:l + 1]],
                "observed_after": tr[l]["obs"], "all_clauses_failing_here": sorted({n for tt, ll, n in verdicts if tt == t and ll == l})})
        done += k


def run(tier, rep):
    pa = import_repo()
    rep.rule = ("L1: all reachable states of the bounded container model; L2: every transition of that graph "
                "executed on real objects (distinct = (source state, call, arguments)); L3: random histories on real "
                "objects judged by the trace spec (distinct = (call, arguments)); trivial = new/drop")
    rep.assumptions += ["float times and strings are compared through their rank (Python sort order = library order)",
                        "sortedcontainers' SortedSet/SortedDict implement their documented contract"]
    l1_mutants(rep)
    apalache_inductive(rep)
    if tier == "quick":
        l1(rep, 5, UNIV_A)
        l1(rep, 4, UNIV_B)
        l2(rep, pa, 4, dict(UNIV_A, many="FALSE"), concretes=CONCRETE[1:2])
        l2(rep, pa, 3, UNIV_B, concretes=[CONCRETE[0], CONCRETE[2]])
        l2_sim(rep, pa, 150, 40, UNIV_B)
        l3(rep, pa, n_traces=150, length=40)
    else:
        l1(rep, 6, UNIV_A)
        l1(rep, 5, UNIV_B)
        l2(rep, pa, 5, dict(UNIV_A, many="FALSE"), concretes=CONCRETE[:1])    # depth 5 without whole-object adds (size)
        l2(rep, pa, 4, UNIV_A, concretes=CONCRETE[1:])
        l2(rep, pa, 4, UNIV_B)
        l2_sim(rep, pa, 2000, 60, UNIV_B)
        l2_sim(rep, pa, 1000, 60, UNIV_A, conc=CONCRETE[1])
        l3(rep, pa, n_traces=3000, length=60)
    rep.exhaustive = False


def replay(path, rep):
    """Re-execute a stored violation against the current tree and print what the code does now."""
    pa = import_repo()
    d = json.loads(open(path).read())["detail"]
    objs = {}
    steps = d.get("path_concrete") or [[h[0], h[1]] for h in d.get("history", [])]
    for op, args in steps:
        if op == "compute":
            continue
        out = histories.apply_event(pa, objs, {"op": op, "args": args})
        print(op, args, "->", out)
    for o, c in sorted(objs.items()):
        print("object", o, contmodel.proj(c))
