"""C14 - computations never modify their inputs; derived continua are independent.

L1  TLC: MC_Continuum - every call changes at most one object of the heap (OneObjectPerCall), rejected calls nothing;
    Compute leaves the heap unchanged by definition, FastGamma touches only the window size of its input.
L2  spec -> code: the transition-graph replay of C13 compares ALL live objects after every call (copy / merge results
    that share state with their source would show there).
L3  code -> spec: random sessions on real objects mixing every public computation entry point (alignments, disorders,
    gamma in every mode, sampler initialisation and draws, corpus generation and shuffling, first windows) with later
    mutations of sources and of returned continua (a NEW label, a new annotator, a removed unit, reset bounds);
    after every step the projection of every live continuum and a digest of every dissimilarity is recorded and judged
    by TraceContinuum.tla: `compute` leaves everything unchanged, `fast_gamma` only the window size of its input,
    `derive` creates an object of its own.
"""
import json
import math
import random
import zlib

import numpy as np

from . import c13, contmodel
from .common import MachineryError, import_repo, seed

LABELS = ["x", "y", "zz"]
ANNS = ["a", "b", "c"]


def fxi(x):
    try:
        return int(round(float(x) * 10000)) % (1 << 30)
    except (TypeError, ValueError, OverflowError):
        return -1


def digest(obj):
    return zlib.crc32(repr(obj).encode()) & 0x3fffffff


def dsnap(d, ids):
    """A dissimilarity as a list of small integers: class, parameters, categories, matrix, identity of its components."""
    out = [digest(type(d).__name__), fxi(d.delta_empty), fxi(getattr(d, "alpha", -1)), fxi(getattr(d, "beta", -1)),
           -1 if d.categories is None else len(d.categories), digest(None if d.categories is None else list(d.categories))]
    m = getattr(d, "_matrix", None)
    out.append(-1 if m is None else zlib.crc32(np.ascontiguousarray(m).tobytes()) & 0x3fffffff)
    for name in ("positional_dissim", "categorical_dissim"):
        comp = getattr(d, name, None)
        if comp is None:
            out += [-1]
        else:
            out += [ids.setdefault(id(comp), len(ids) + 1)] + dsnap(comp, ids)
    return out


def make_dissim(pa, rng, cats):
    from sortedcontainers import SortedSet
    k = rng.choice(["pos", "comb", "comb_pre", "comb_ord", "abs"])
    de = rng.choice([1.0, 2.0])
    if k == "pos":
        return pa.PositionalSporadicDissimilarity(delta_empty=de)
    if k == "abs":
        return pa.AbsoluteCategoricalDissimilarity(delta_empty=de)
    if k == "comb" or not cats:
        return pa.CombinedCategoricalDissimilarity(alpha=rng.choice([1, 3]), beta=1, delta_empty=de)
    cs = SortedSet(cats)
    if k == "comb_pre":
        m = np.ones((len(cs), len(cs)), dtype=np.float32) - np.eye(len(cs), dtype=np.float32)
        return pa.CombinedCategoricalDissimilarity(alpha=1, beta=2, delta_empty=de,
                                                   cat_dissim=pa.PrecomputedCategoricalDissimilarity(cs, m, delta_empty=rng.choice([1.0, 2.0])))
    return pa.CombinedCategoricalDissimilarity(alpha=1, beta=1, delta_empty=de, cat_dissim=pa.OrdinalCategoricalDissimilarity(list(cs), delta_empty=de))


def session(pa, rng, length, max_obj=5):
    from pyannote.core import Segment
    Unit = pa.continuum.Unit
    objs, auxs, aux_ids = {}, {}, {}
    events = []
    label_counter = [0]

    def free():
        return [i for i in range(1, max_obj + 1) if i not in objs]

    unlabelled = rng.random() < 0.3      # a session on a continuum without any label (positional information only)

    def seed_continuum():
        c = pa.Continuum()
        for a in ANNS[: rng.randint(2, 3)]:
            t = 0
            for _ in range(rng.randint(1, 4)):
                t += rng.randint(0, 3)
                d = rng.randint(1, 4)
                c.add(a, Segment(float(t), float(t + d)), None if unlabelled else rng.choice(LABELS))
                t += d
        return c

    def observe():
        obs, eq = contmodel.observe(objs)
        aux = [[i, dsnap(d, dict(aux_ids))] for i, d in sorted(auxs.items())]
        return obs, eq, aux

    def emit(e):
        e["obs"], e["eq"], e["aux"] = observe()
        events.append(e)

    # start: one continuum, one dissimilarity
    objs[1] = seed_continuum()
    emit({"op": "derive", "args": [1], "out": "ok", "kind": "seed"})
    for step in range(length):
        live = sorted(objs)
        choices = ["compute"] * 6 + ["derive"] * 3 + ["mutate"] * 4 + ["newaux"] + ["fast_gamma"] + ["drop"]
        if not auxs:
            choices = ["newaux"]
        op = rng.choice(choices)
        if op == "newaux":
            cats = sorted({u.annotation for o in objs.values() for _, u in o if u.annotation is not None})
            i = len(auxs) + 1
            auxs[i] = make_dissim(pa, rng, cats)
            e = {"op": "newaux", "args": [i], "out": "ok", "kind": type(auxs[i]).__name__}
            e["auxval"] = dsnap(auxs[i], dict(aux_ids))
            emit(e)
            continue
        o = rng.choice(live)
        c = objs[o]
        d = auxs[rng.choice(sorted(auxs))]
        if op == "drop":
            if len(live) > 1:
                del objs[o]
                emit({"op": "drop", "args": [o], "out": "ok"})
            continue
        if op == "mutate":
            kind = rng.choice(["add_new_label", "add_annotator", "remove", "reset_bounds", "add", "merge_in_place", "merge_in_place"])
            e = {"out": "ok"}
            if kind == "merge_in_place":
                # merge another live continuum into this one, then change the OTHER one for one of its annotators:
                # the two must stay independent
                o2 = rng.choice(live)
                c.merge(objs[o2], in_place=True)
                emit({"op": "merge_in_place", "args": [o, o2], "out": "ok"})
                src = objs[o2]
                pool = [(a, u) for a, u in src]
                if pool and o2 != o:
                    a, u = rng.choice(pool)
                    if rng.random() < 0.5:
                        src.remove(a, u)
                        emit({"op": "remove", "args": [o2, a, float(u.segment.start), float(u.segment.end), u.annotation], "out": "ok"})
                    else:
                        label_counter[0] += 1
                        s0 = float(rng.randint(40, 60))
                        nl = None if unlabelled else f"new{label_counter[0]}"
                        src.add(a, Segment(s0, s0 + 1.0), nl)
                        emit({"op": "add", "args": [o2, a, s0, s0 + 1.0, nl], "out": "ok"})
                continue
            try:
                if kind == "add_new_label" and unlabelled:
                    kind = "reset_bounds"
                if kind == "add_new_label":
                    label_counter[0] += 1
                    lab = f"new{label_counter[0]}"
                    a = rng.choice(list(c.annotators) or ANNS)
                    s = float(rng.randint(0, 30))
                    e.update(op="add", args=[o, a, s, s + 1.5, lab])
                    c.add(a, Segment(s, s + 1.5), lab)
                elif kind == "add":
                    a, s = rng.choice(ANNS + ["d"]), float(rng.randint(-3, 40))
                    lab = None if unlabelled else rng.choice(LABELS)
                    e.update(op="add", args=[o, a, s, s + 2.0, lab])
                    c.add(a, Segment(s, s + 2.0), lab)
                elif kind == "add_annotator":
                    a = rng.choice(["zed", "d", "Sampled_annotation 9"])
                    e.update(op="add_annotator", args=[o, a])
                    c.add_annotator(a)
                elif kind == "remove":
                    pool = [(a, u) for a, u in c]
                    if not pool:
                        continue
                    a, u = rng.choice(pool)
                    e.update(op="remove", args=[o, a, float(u.segment.start), float(u.segment.end), u.annotation])
                    c.remove(a, u)
                else:
                    e.update(op="reset_bounds", args=[o])
                    c.reset_bounds()
            except Exception:
                e["out"] = "rejected"
            emit(e)
            continue
        if op == "fast_gamma":
            np.random.seed(rng.randint(0, 2 ** 31 - 1))
            try:
                c.compute_gamma(d, n_samples=2, fast=True, sampler=rng.choice([None, pa.ShuffleContinuumSampler()]))
            except Exception:
                pass
            w = c.best_window_size
            emit({"op": "fast_gamma", "args": [o, 0 if math.isinf(w) else int(w)], "out": "ok", "kind": "compute_gamma(fast=True)"})
            continue
        if op == "compute":
            kind = rng.choice(["best", "soft", "fast_alignment", "disorders", "gamma", "gamma_soft", "gamma_cat", "sampler_init",
                               "cst_new", "properties", "window", "check"])
            np.random.seed(rng.randint(0, 2 ** 31 - 1))
            try:
                if kind == "best":
                    c.get_best_alignment(d)
                elif kind == "soft":
                    c.get_best_soft_alignment(d)
                elif kind == "fast_alignment":
                    c.get_fast_alignment(d, rng.randint(1, 3))
                elif kind == "disorders":
                    al = c.get_best_alignment(d)
                    al.compute_disorder(d)
                    al.unitary_alignments[0].compute_disorder(d)
                    d.valid_alignments(c)
                elif kind == "gamma":
                    gt = rng.choice([None, list(c.annotators)[:2]])
                    if gt is not None and all(len(c[a]) == 0 for a in gt):
                        gt = None
                    c.compute_gamma(d, n_samples=2, sampler=pa.ShuffleContinuumSampler("float_pivot") if unlabelled else
                                    rng.choice([None, pa.ShuffleContinuumSampler("float_pivot")]),
                                    ground_truth_annotators=gt)
                elif kind == "gamma_soft":
                    c.compute_gamma(d, n_samples=2, soft=True, precision_level=rng.choice([None, 0.5]))
                elif kind == "gamma_cat":
                    r = c.compute_gamma(d, n_samples=2)
                    r.gamma_cat
                    for cat in list(c.categories)[:2]:
                        r.gamma_k(cat)
                elif kind == "sampler_init":
                    s = rng.choice([pa.StatisticalContinuumSampler(), pa.ShuffleContinuumSampler()])
                    gt = rng.choice([None, list(c.annotators)[:2]])
                    if gt is not None and all(len(c[a]) == 0 for a in gt):
                        gt = None       # the shuffle sampler retries for ever when no ground-truth annotator has a unit (precondition)
                    s.init_sampling(c, gt)
                    s.sample_from_continuum
                elif kind == "cst_new":
                    cst = pa.CorpusShufflingTool(rng.choice([0.0, 0.5, 1.0]), c, categories=rng.choice([None, ["extra"]]))
                    cst.corpus_shuffle(rng.choice([2, ["p", "q"]]), shift=True, false_pos=True, false_neg=True, split=True, cat_shuffle=True)
                elif kind == "properties":
                    c.category_weights, c.avg_length_unit, c.max_num_annotations_per_annotator, c.num_annotators
                    list(c.iterunits(list(c.annotators)[0]))
                elif kind == "window":
                    c.get_first_window(d, rng.randint(1, 2))
                elif kind == "check":
                    c.get_best_alignment(d).check(c)
            except Exception:
                pass        # degenerate inputs (one annotator, nothing to sample ...): still must not modify anything
            emit({"op": "compute", "args": [], "out": "ok", "kind": kind})
            continue
        if op == "derive":
            fr = free()
            if not fr:
                continue
            kind = rng.choice(["sample_stat", "sample_shuffle", "cst_from_reference", "cst_corpus", "window", "copy", "copy_flush", "merge_new"])
            np.random.seed(rng.randint(0, 2 ** 31 - 1))
            new = None
            try:
                if kind in ("sample_stat", "sample_shuffle"):
                    s = pa.StatisticalContinuumSampler() if kind == "sample_stat" else pa.ShuffleContinuumSampler(rng.choice(["int_pivot", "float_pivot"]))
                    s.init_sampling(c)
                    new = s.sample_from_continuum
                elif kind == "cst_from_reference":
                    new = pa.CorpusShufflingTool(0.5, c, categories=rng.choice([None, ["extra"]])).corpus_from_reference(rng.choice([2, ["m1", "m2"]]))
                elif kind == "cst_corpus":
                    new = pa.CorpusShufflingTool(rng.choice([0.0, 0.7]), c).corpus_shuffle(2, shift=True, cat_shuffle=True, include_ref=rng.random() < 0.5)
                elif kind == "window":
                    new = c.get_first_window(d, 1)[0]
                elif kind == "copy":
                    new = c.copy()
                elif kind == "copy_flush":
                    new = c.copy_flush()
                else:
                    new = c + objs[rng.choice(live)]
            except Exception:
                new = None
            if new is None:
                emit({"op": "compute", "args": [], "out": "ok", "kind": kind + " (failed)"})
                continue
            n = fr[0]
            objs[n] = new
            emit({"op": "derive", "args": [n], "out": "ok", "kind": kind})
            if kind == "merge_new" and rng.random() < 0.7:
                # change one of the operands right away, for an annotator it has: the merged continuum must not move
                src_id = rng.choice(live)
                src = objs[src_id]
                pool = [(a, u) for a, u in src]
                if pool:
                    a, u = rng.choice(pool)
                    label_counter[0] += 1
                    s0 = float(rng.randint(40, 60))
                    nl = None if unlabelled else f"new{label_counter[0]}"
                    src.add(a, Segment(s0, s0 + 1.0), nl)
                    emit({"op": "add", "args": [src_id, a, s0, s0 + 1.0, nl], "out": "ok"})
    return events


def run(tier, rep):
    pa = import_repo()
    rng = random.Random(seed() * 1000003 + 14)
    quick = tier == "quick"
    rep.rule = ("random sessions over every public computation entry point x later mutations of sources and returned continua; "
                "distinct = (call kind, arguments); L2 = the transition replay of the container model with all live objects compared")
    rep.assumptions += ["a dissimilarity is observed through its class, parameters, categories, matrix bytes and the identity / state of its components",
                        "measure_best_window_size is a mutator by design and is not counted as a computation"]
    c13.l1(rep, 4, c13.UNIV_A)
    c13.l2(rep, pa, 3 if quick else 4, c13.UNIV_A, concretes=c13.CONCRETE[:1])
    traces = []
    n = 45 if quick else 250
    for _ in range(n):
        traces.append(session(pa, rng, 25 if quick else 35))
    for i in range(0, len(traces), 150):
        part = traces[i:i + 150]
        for tr in list(part):
            bad = contmodel.observation_problems(tr)
            if bad:
                rep.violation(f"session.observe_raises.{tr[bad[0]]['op']}.{tr[bad[0]].get('kind', '')}", {
                    "event_index": bad[0], "problems": bad[1], "session_calls": [x.get("kind", x["op"]) for x in tr[:bad[0] + 1]]})
                part.remove(tr)
        if not part:
            continue
        res, verdicts = contmodel.validate(part, 5, label="TraceContinuum sessions", workers=16)
        rep.add_tlc(res)
        firsts = {}
        for t, l, name in verdicts:
            if name in contmodel.BEYOND:
                rep.beyond(f"session.{name}.{part[t][l]['op']}.{part[t][l].get('kind', '')}", {"event_index": l})
                continue
            firsts.setdefault(t, (l, name))
        for t, (l, name) in firsts.items():
            tr = part[t]
            kinds = [x.get("kind", x["op"]) for x in tr[:l + 1]]
            rep.violation(f"session.{name}.{tr[l]['op']}.{tr[l].get('kind', '')}", {
                "clause": name, "event_index": l, "all_clauses_failing_here": sorted({n2 for tt, ll, n2 in verdicts if tt == t and ll == l}),
                "event": {k: v for k, v in tr[l].items() if k not in ("obs", "eq")}, "session_calls": kinds,
                "observed_after": tr[l]["obs"], "aux_after": tr[l]["aux"]})
    rep.traces += len(traces)
    for tr in traces:
        for e in tr:
            rep.case(key=json.dumps([e["op"], e.get("kind", ""), e["args"]], default=str), nontrivial=e["op"] != "drop")
    rep.sample({"session_head": [[e["op"], e.get("kind", ""), e["args"]] for e in traces[0][:14]]})
    kinds = {}
    for tr in traces:
        for e in tr:
            k = f"{e['op']}:{e.get('kind', '')}"
            kinds[k] = kinds.get(k, 0) + 1
    rep.extra["calls_by_kind"] = kinds


def replay(path, rep):
    d = json.loads(open(path).read())
    print(json.dumps(d["detail"], indent=1, default=str)[:6000])
