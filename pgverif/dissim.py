"""C04 - built-in dissimilarities compute their documented formula in both forms.

L1  TLC: MC_Dissim - the formulas of Dissim.tla on an integer grid: symmetric, non-negative, zero on identical units,
    shift / scale invariant, linear in delta_empty, ordinal distance independent of the supply order.
L2/L3 code -> spec: for every dissimilarity class x delta_empty x alpha, beta x supplied label order x category count
    (1..300, pairs straddling 127) x component built with the same / another delta_empty, the harness evaluates
    d(u,v), d(v,u) and the compiled form (2-tuple disorder) on all unit pairs of a grid (and on random float pairs)
    and TraceDissim.tla judges them against the formula it evaluates itself in exact rational arithmetic.
"""
import itertools
import json
import random
from fractions import Fraction

import numpy as np

from . import tlc
from .common import MachineryError, import_repo, scratch, seed

FX = 100000
CFG = """SPECIFICATION Spec
CONSTANTS
 SMax = {smax}
 MaxLen = {maxlen}
 NLabels = 3
INVARIANT Symmetric
INVARIANT NonNegative
INVARIANT ZeroOnIdentical
INVARIANT ShiftInvariant
INVARIANT ScaleInvariant
INVARIANT LinearInDE
INVARIANT OrdSupplyOrderFree
INVARIANT DisjointAboveDE
"""


def l1(rep, tier):
    for smax, maxlen in ([(3, 3)] if tier == "quick" else [(3, 3), (5, 4)]):
        res = tlc.run("MC_Dissim", CFG.format(smax=smax, maxlen=maxlen), label=f"MC_Dissim {smax}x{maxlen}", workers=8, timeout=900)
        if res.violated or res.errors:
            raise MachineryError(f"MC_Dissim: {res.violated} {res.errors}\n{res.trace_text[:1500]}")
        rep.add_tlc(res)


def fxv(x):
    x = float(x)
    if x != x or abs(x) > 1e300:
        return float("nan")
    return int(round(x * FX))


def rat(x):
    f = Fraction(x).limit_denominator(64)
    return [f.numerator, f.denominator]


class Batch:
    """Evaluates d(u,v), d(v,u) and the compiled form for a list of unit pairs."""

    def __init__(self, pa):
        self.pa = pa

    def observe(self, d, pairs):
        pa = self.pa
        uas = [pa.UnitaryAlignment([("a", u), ("b", v)]) for u, v in pairs]
        uas_sym = [pa.UnitaryAlignment([("a", v), ("b", u)]) for u, v in pairs]
        comp = d.compute_disorder(pa.Alignment(uas))
        compsym = d.compute_disorder(pa.Alignment(uas_sym))
        out = []
        for (u, v), c, cs in zip(pairs, comp, compsym):
            out.append((fxv(d.d(u, v)), fxv(d.d(v, u)), fxv(c), fxv(cs)))
        return out


def grid_segments(smax=3, maxlen=3):
    return [(s, s + k) for s in range(smax + 1) for k in range(1, maxlen + 1)]


def make_units(pa, segs, label):
    from pyannote.core import Segment
    Unit = pa.continuum.Unit
    return [Unit(Segment(float(s), float(e)), label) for s, e in segs]


def build_records(pa, rng, tier, rep):
    from pyannote.core import Segment
    from sortedcontainers import SortedSet
    Unit = pa.continuum.Unit
    quick = tier == "quick"
    batch = Batch(pa)
    recs, metas = [], []
    segs = grid_segments()
    des = [1.0, 2.0, 0.5]

    def add(cls, cat, d, pairs_spec, de, alpha=1, beta=1, M=None, supplied=None, pos=None, meta=None, rank=None):
        """pairs_spec: list of ((s,e,label),(s,e,label), exact) with labels as names (or None)."""
        pairs = [(Unit(Segment(float(a[0]), float(a[1])), a[2]), Unit(Segment(float(b[0]), float(b[1])), b[2])) for a, b, _ in pairs_spec]
        try:
            obs = batch.observe(d, pairs)
        except Exception as ex:
            rep.violation("dissim.raises", {"exception": repr(ex), "meta": meta})
            return
        # magnitudes TLC's 32-bit integers cannot carry.  Float pairs of a positional (part) can legitimately be huge (tiny
        # durations far apart): only within-pair relations are judged on them, so such a pair is rescaled on its own.  A
        # categorical dissimilarity judged by relations only (ordinal, Levenshtein, user-defined) is rescaled as a whole.
        # Anything else that large (integer-grid pairs, matrix-based categorical values) contradicts its formula by itself.
        def bad(x):
            return x != x
        if any(bad(x) for o in obs for x in o):
            rep.violation("dissim.value_not_a_number", {"meta": meta, "delta_empty": de, "alpha": alpha, "beta": beta})
            return
        if cls == "cat":
            top = max([abs(x) for o in obs for x in o] + [0])
            if top > 40 * FX:
                if cat in ("abs", "pre"):
                    rep.violation("dissim.value_out_of_range", {"meta": meta, "largest_value": top / FX, "delta_empty": de})
                    return
                k = int(top // (20 * FX)) + 1
                obs = [tuple(int(round(x / k)) for x in o) for o in obs]
                meta = dict(meta or {}, rescaled_by=k)
        else:
            new_obs = []
            for (a, b, ex_), o in zip(pairs_spec, obs):
                top = max(abs(x) for x in o)
                if top > 2000 * FX:
                    if ex_:
                        rep.violation("dissim.value_out_of_range", {"meta": meta, "largest_value": top / FX, "delta_empty": de, "alpha": alpha,
                                                                    "beta": beta, "pair": [a, b]})
                        return
                    k = int(top // (1000 * FX)) + 1
                    o = tuple(int(round(x / k)) for x in o)
                new_obs.append(o)
            obs = new_obs
        floats = sorted({x for a, b, ex_ in pairs_spec if not ex_ for x in (a[0], a[1], b[0], b[1])})
        fidx = {x: i for i, x in enumerate(floats)}

        def enc(t, ex_):
            lab = 0 if t[2] is None else rank[t[2]]
            return [int(t[0]), int(t[1]), lab] if ex_ else [fidx[t[0]], fidx[t[1]], lab]
        strs = [[]] + [[ord(ch) for ch in name] for name, _ in sorted(rank.items(), key=lambda kv: kv[1])] if cat == "lev" else []
        rec = {"cls": cls, "cat": cat, "de": rat(de), "alpha": rat(alpha), "beta": rat(beta),
               "M": M or [], "supplied": supplied or [], "pos": pos or [], "strs": strs[1:] if strs else [],
               "pairs": [{"u": enc(a, ex_), "v": enc(b, ex_), "exact": 1 if ex_ else 0, "d": o[0], "dsym": o[1], "comp": o[2], "compsym": o[3]}
                         for (a, b, ex_), o in zip(pairs_spec, obs)]}
        recs.append(rec)
        metas.append(dict(meta or {}, cls=cls, cat=cat, delta_empty=de, alpha=alpha, beta=beta, n_pairs=len(pairs)))
        for a, b, _ in pairs_spec:
            rep.case(key=json.dumps([cls, cat, de, alpha, beta, str(supplied), a, b], default=str))

    def grid_pairs(labels, sample=None, floats=0):
        out = []
        allp = [((s1, e1, l1), (s2, e2, l2), True) for (s1, e1) in segs for (s2, e2) in segs for l1 in labels for l2 in labels]
        if sample and len(allp) > sample:
            allp = rng.sample(allp, sample)
        out += allp
        for _ in range(floats):
            s1, s2 = rng.uniform(0, 50), rng.uniform(0, 50)
            a = (s1, s1 + rng.uniform(0.1, 9), rng.choice(labels))
            b = (s2, s2 + rng.uniform(0.1, 9), rng.choice(labels))
            out.append((a, b, False))
            out.append((a, a, False))
        return out

    names3 = ["alpha", "beta", "gamma"]
    rank3 = {n: i + 1 for i, n in enumerate(sorted(names3))}
    # --- positional
    for de in des:
        add("pos", "none", pa.PositionalSporadicDissimilarity(delta_empty=de), grid_pairs(["x"], floats=20), de, rank={"x": 1},
            meta={"kind": "PositionalSporadic"})
    # --- absolute (labels incl. none)
    other3 = ["delta", "epsilon", "zeta"]           # the same number of names, other names: the SAME object must cope
    rank_other = {n: i + 1 for i, n in enumerate(sorted(other3))}
    empty3 = ["", "eta", "theta"]
    rank_empty = {n: i + 1 for i, n in enumerate(sorted(empty3))}
    for de in des:
        d_abs = pa.AbsoluteCategoricalDissimilarity(delta_empty=de)
        add("cat", "abs", d_abs, grid_pairs(names3 + [None], sample=150, floats=6), de,
            rank=rank3, meta={"kind": "AbsoluteCategorical"})
        add("cat", "abs", d_abs, grid_pairs(other3 + [None], sample=100), de,
            rank=rank_other, meta={"kind": "AbsoluteCategorical (same object, other category names)"})
        # the empty string is a legal category name, not "no category": it differs from an unlabelled unit like any other name
        add("cat", "abs", d_abs, grid_pairs(empty3 + [None], sample=100), de,
            rank=rank_empty, meta={"kind": "AbsoluteCategorical (a category named '')"})
        d_comb = pa.CombinedCategoricalDissimilarity(alpha=1, beta=2, delta_empty=de)
        add("comb", "abs", d_comb, grid_pairs(names3, sample=80), de, 1, 2, rank=rank3, meta={"kind": "Combined(default categorical)"})
        add("comb", "abs", d_comb, grid_pairs(other3, sample=80), de, 1, 2, rank=rank_other,
            meta={"kind": "Combined(default categorical) (same object, other category names)"})

    # --- precomputed, 3 categories and many categories
    def pre_matrix(k):
        m = np.zeros((k, k), dtype=np.float32)
        for i in range(k):
            for j in range(i):
                m[i, j] = m[j, i] = rng.choice([0.125, 0.25, 0.5, 0.75, 1.0, 1.5])
        return m
    for de in des:
        m = pre_matrix(3)
        add("cat", "pre", pa.PrecomputedCategoricalDissimilarity(SortedSet(names3), m, delta_empty=de),
            grid_pairs(names3, sample=120, floats=4), de, M=[[rat(x) for x in row] for row in m.tolist()], rank=rank3,
            meta={"kind": "Precomputed", "matrix": m.tolist()})
    for k in ([129] if quick else [127, 128, 129, 200]):
        labels = [f"l{i:03d}" for i in range(k)]
        rk = {n: i + 1 for i, n in enumerate(labels)}
        m = pre_matrix(k)
        picks = [labels[i] for i in sorted({0, 1, k // 2, 126 % k, 127 % k, (128) % k, k - 1})]
        ps = [((0, 2, a), (1, 3, b), True) for a in picks for b in picks]
        add("cat", "pre", pa.PrecomputedCategoricalDissimilarity(SortedSet(labels), m, delta_empty=1.0), ps, 1.0,
            M=[[rat(x) for x in row] for row in m.tolist()], rank=rk, meta={"kind": "Precomputed", "categories": k})
    # --- user-defined categorical dissimilarity (LambdaCategoricalDissimilarity subclass): an ASYMMETRIC integer table as the
    # user's function; the library asks it with the alphabetically later name first and normalises by max(1, largest value)
    for de in des:
        for hi in (1, 7):
            F = [[0 if i == j else rng.randint(0, hi) for j in range(3)] for i in range(3)]
            srt = sorted(names3)

            class UserDissim(pa.dissimilarity.LambdaCategoricalDissimilarity):
                table = {(srt[i], srt[j]): float(F[i][j]) for i in range(3) for j in range(3)}

                @staticmethod
                def cat_dissim_func(str1, str2):
                    return UserDissim.table[(str1, str2)]
            add("cat", "lam", UserDissim(names3, delta_empty=de), grid_pairs(names3, sample=90, floats=2), de, M=F, rank=rank3,
                meta={"kind": "user-defined Lambda subclass", "table": F})
            add("comb", "lam", pa.CombinedCategoricalDissimilarity(alpha=2, beta=1, delta_empty=de, cat_dissim=UserDissim(names3, delta_empty=de)),
                grid_pairs(names3, sample=60), de, 2, 1, M=F, rank=rank3, meta={"kind": "Combined(user-defined Lambda subclass)", "table": F})
    # --- ordinal: every supply order of 3 labels, explicit and default positions; many categories
    # (also with names whose code-point order differs from their case-insensitive order: 'B' < 'a' < 'c')
    mixed3 = ["a", "B", "c"]
    rank_mixed = {n: i + 1 for i, n in enumerate(sorted(mixed3))}
    for nm3, rk3 in ((names3, rank3), (mixed3, rank_mixed)):
        for perm in itertools.permutations(nm3):
            for positions in ([0.0, 1.0, 2.0], [5.0, 1.0, 2.5], None):
                de = rng.choice(des)
                supplied = [rk3[n] for n in perm]
                posv = positions if positions is not None else [0.0, 1.0, 2.0]
                d = pa.OrdinalCategoricalDissimilarity(list(perm), p=None if positions is None else list(positions), delta_empty=de)
                add("cat", "ord", d, grid_pairs(nm3, sample=60), de, supplied=supplied, pos=[int(round(x * 2)) for x in posv], rank=rk3,
                    meta={"kind": "Ordinal", "labels_supplied": list(perm), "positions": positions})
    for k in ([1, 2, 129, 300] if quick else [1, 2, 3, 127, 128, 129, 200, 300]):
        labels = [f"l{i:03d}" for i in range(k)]
        sup = list(labels)
        rng.shuffle(sup)
        rk = {n: i + 1 for i, n in enumerate(labels)}
        d = pa.OrdinalCategoricalDissimilarity(sup, delta_empty=1.0)
        picks = [labels[i] for i in sorted({0, 1 % k, k // 2, 126 % k, 127 % k, 128 % k, (k * 2) // 3, k - 1})]
        ps = [((0, 2, a), (1, 3, b), True) for a in picks for b in picks]
        add("cat", "ord", d, ps, 1.0, supplied=[rk[n] for n in sup], pos=list(range(k)), rank=rk,
            meta={"kind": "Ordinal default positions", "categories": k, "supplied_head": sup[:6]})
    # --- numerical: lexical order differs from numeric order
    for labs in (["10", "9", "2"], ["2", "10", "9", "100"], ["1.5", "12", "3"]):
        rk = {n: i + 1 for i, n in enumerate(sorted(labs))}
        de = rng.choice(des)
        d = pa.NumericalCategoricalDissimilarity(labs, delta_empty=de)
        add("cat", "ord", d, grid_pairs(labs, sample=60), de, supplied=[rk[n] for n in labs], pos=[int(round(float(n) * 2)) for n in labs],
            rank=rk, meta={"kind": "Numerical", "labels_supplied": labs})
    # --- Levenshtein: relations only
    labs = ["cat", "cart", "dog", "", "dogs", "abcde", "bcdea", "edcba", "vwxyz", "abcdf", "tac"]
    rk = {n: i + 1 for i, n in enumerate(sorted(labs))}
    for de in des[:2]:
        lev_pairs = [((0, 2, a), (1, 3, b), True) for a in labs for b in labs]
        add("cat", "lev", pa.LevenshteinCategoricalDissimilarity(labs, delta_empty=de), lev_pairs, de, rank=rk,
            meta={"kind": "Levenshtein"})
    # --- combined
    combos = [(a, b, de, same) for a in (0, 1, 3) for b in (0, 1, 3) for de in des for same in (True, False)]
    kinds5 = ["abs_default", "abs", "pre", "ord", "lev"]
    if quick:
        # every component kind with the same and with another delta_empty at least once, alpha/beta/delta_empty at random
        combos = [(rng.choice([0, 1, 3]), rng.choice([1, 3]), rng.choice(des), same) for same in (True, False) for _ in kinds5] + rng.sample(combos, 6)
    for ci, (a, b, de, same) in enumerate(combos):
        cde = de if same else rng.choice([x for x in des if x != de])
        kind = kinds5[ci % 5] if ci < 10 else rng.choice(kinds5)
        if kind == "abs_default":
            d = pa.CombinedCategoricalDissimilarity(alpha=a, beta=b, delta_empty=de)
            add("comb", "abs", d, grid_pairs(names3 + [None], sample=120, floats=4), de, a, b, rank=rank3,
                meta={"kind": "Combined(default categorical)"})
        elif kind == "abs":
            d = pa.CombinedCategoricalDissimilarity(alpha=a, beta=b, delta_empty=de, cat_dissim=pa.AbsoluteCategoricalDissimilarity(delta_empty=cde))
            add("comb", "abs", d, grid_pairs(names3, sample=120, floats=4), de, a, b, rank=rank3,
                meta={"kind": "Combined(absolute)", "component_delta_empty": cde})
        elif kind == "pre":
            m = pre_matrix(3)
            d = pa.CombinedCategoricalDissimilarity(alpha=a, beta=b, delta_empty=de,
                                                    cat_dissim=pa.PrecomputedCategoricalDissimilarity(SortedSet(names3), m, delta_empty=cde))
            add("comb", "pre", d, grid_pairs(names3, sample=120, floats=4), de, a, b, M=[[rat(x) for x in row] for row in m.tolist()], rank=rank3,
                meta={"kind": "Combined(precomputed)", "component_delta_empty": cde, "matrix": m.tolist()})
        elif kind == "ord":
            perm = list(names3)
            rng.shuffle(perm)
            d = pa.CombinedCategoricalDissimilarity(alpha=a, beta=b, delta_empty=de,
                                                    cat_dissim=pa.OrdinalCategoricalDissimilarity(perm, delta_empty=cde))
            add("comb", "ord", d, grid_pairs(names3, sample=80), de, a, b, supplied=[rank3[n] for n in perm], pos=[0, 1, 2], rank=rank3,
                meta={"kind": "Combined(ordinal)", "component_delta_empty": cde, "labels_supplied": perm})
        else:
            d = pa.CombinedCategoricalDissimilarity(alpha=a, beta=b, delta_empty=de,
                                                    cat_dissim=pa.LevenshteinCategoricalDissimilarity(names3, delta_empty=cde))
            add("comb", "lev", d, grid_pairs(names3, sample=80), de, a, b, rank=rank3,
                meta={"kind": "Combined(levenshtein)", "component_delta_empty": cde})
    # --- every component kind built with a delta_empty that is neither 1 nor the combined dissimilarity's (always, not by chance)
    for kind in ("abs", "pre", "ord", "lev"):
        for de, cde in ((2.0, 0.5), (0.5, 2.0)):
            a, b = rng.choice([0, 1, 3]), rng.choice([1, 3])
            kw = {}
            if kind == "abs":
                comp = pa.AbsoluteCategoricalDissimilarity(delta_empty=cde)
            elif kind == "pre":
                m = pre_matrix(3)
                comp = pa.PrecomputedCategoricalDissimilarity(SortedSet(names3), m, delta_empty=cde)
                kw = {"M": [[rat(x) for x in row] for row in m.tolist()]}
            elif kind == "ord":
                perm = list(names3)
                rng.shuffle(perm)
                comp = pa.OrdinalCategoricalDissimilarity(perm, delta_empty=cde)
                kw = {"supplied": [rank3[n] for n in perm], "pos": [0, 1, 2]}
            else:
                comp = pa.LevenshteinCategoricalDissimilarity(names3, delta_empty=cde)
            d = pa.CombinedCategoricalDissimilarity(alpha=a, beta=b, delta_empty=de, cat_dissim=comp)
            add("comb", kind, d, grid_pairs(names3, sample=60), de, a, b, rank=rank3,
                meta={"kind": f"Combined({kind})", "component_delta_empty": cde, "note": "component delta_empty neither 1 nor the combined one"}, **kw)
    # --- ONE categorical component object shared by two combined dissimilarities with different delta_empty: each combined
    # dissimilarity must go on computing with the one delta_empty IT was given, whatever is built on the same component later
    for kind in ("pre", "abs"):
        for de1, de2 in ((2.0, 0.5), (1.0, 2.0), (0.5, 1.0)):
            m = pre_matrix(3)
            comp = (pa.PrecomputedCategoricalDissimilarity(SortedSet(names3), m, delta_empty=1.0) if kind == "pre"
                    else pa.AbsoluteCategoricalDissimilarity(delta_empty=1.0))
            first = pa.CombinedCategoricalDissimilarity(alpha=1, beta=2, delta_empty=de1, cat_dissim=comp)
            second = pa.CombinedCategoricalDissimilarity(alpha=3, beta=1, delta_empty=de2, cat_dissim=comp)
            M = [[rat(x) for x in row] for row in m.tolist()] if kind == "pre" else None
            add("comb", kind, first, grid_pairs(names3, sample=60), de1, 1, 2, M=M, rank=rank3,
                meta={"kind": f"Combined({kind}), FIRST of two built on one shared component", "delta_empty_of_the_other": de2})
            add("comb", kind, second, grid_pairs(names3, sample=60), de2, 3, 1, M=M, rank=rank3,
                meta={"kind": f"Combined({kind}), SECOND of two built on one shared component", "delta_empty_of_the_other": de1})
    return recs, metas


def judge(recs, label="TraceDissim"):
    path = scratch() / f"dissim-{random.getrandbits(32):08x}.json"
    path.write_text(json.dumps({"recs": recs}))
    res = tlc.run("TraceDissim", "SPECIFICATION Spec\nCONSTRAINT Verdicts\n", label=label, env={"TRACE_FILE": str(path)},
                  workers=16, timeout=1800, coverage=False, heap="8g")
    path.unlink(missing_ok=True)
    if res.errors or res.violated:
        raise MachineryError(f"TraceDissim did not run cleanly: {res.errors} {res.violated}\n{res.out[-2500:]}")
    done, verdicts = set(), {}
    for p in res.printed:
        if "done" in p:
            done.add(p["done"] - 1)
        elif "verdict" in p:
            verdicts.setdefault(p["tid"] - 1, set()).add(p["verdict"])
    if done != set(range(len(recs))):
        raise MachineryError(f"TraceDissim judged {len(done)} of {len(recs)} records\n{res.out[-1500:]}")
    return res, verdicts


def run(tier, rep):
    pa = import_repo()
    rng = random.Random(seed() * 1000003 + 4)
    rep.rule = ("one record per dissimilarity object (class x delta_empty x alpha,beta x supplied label order x category count x "
                "component delta_empty), each with a batch of unit pairs (all pairs of the integer grid or a sample, plus float pairs); "
                "distinct = (dissimilarity parameters, unit pair)")
    rep.assumptions += ["Levenshtein normalisation and the ordinal/numerical normaliser m are not fixed by the statement: relations / proportionality only",
                        "an explicitly supplied positional component with its own delta_empty is not generated"]
    l1(rep, tier)
    recs, metas = build_records(pa, rng, tier, rep)
    res, verdicts = judge(recs)
    rep.add_tlc(res)
    rep.traces += len(recs)
    for k, names in verdicts.items():
        r = recs[k]
        if "ObsLambdaFormula" in names:
            rep.beyond("dissim.ObsLambdaFormula", {"meta": metas[k], "pairs_head": r["pairs"][:5]})
            names = set(names) - {"ObsLambdaFormula"}
            if not names:
                continue
        rep.violation("dissim." + "+".join(sorted(names)), {"clauses": sorted(names), "meta": metas[k],
                                                            "pairs_head": r["pairs"][:5], "supplied": r["supplied"][:8], "pos": r["pos"][:8]})
    rep.sample({"meta": metas[0], "pairs_head": recs[0]["pairs"][:3]})
    rep.extra["dissimilarity_objects"] = len(recs)
    rep.extra["unit_pairs"] = sum(len(r["pairs"]) for r in recs)


def replay(path, rep):
    d = json.loads(open(path).read())
    print(json.dumps(d["detail"], indent=1)[:6000])
