"""C12 - gamma-cat and gamma-k follow their definition.

L1  TLC: MC_GammaCat - the weighted mean of GammaCat.tla on every alignment of a small universe: bounded by delta_empty,
    zero when co-aligned units agree and nothing is unaligned, nothing counted for an absent category, gamma-k a
    restriction of gamma-cat.
L2/L3 code -> spec: real Alignment objects (hand-built partitions with any empty-slot pattern, best and soft alignments,
    2..5 annotators) on an integer grid x alpha x delta_empty x categorical component x category (none / present /
    absent): the value of gamma_k_disorder is compared by TLC with the exact weighted mean; gamma runs give the
    per-alignment categorical disorders and the reported gamma-cat / gamma-k for the combination rule; non-combined
    dissimilarities must be refused with TypeError.
"""
import json
import random

import numpy as np

from . import align, tlc
from .common import MachineryError, import_repo, scratch, seed

FX = 1000000
LABS = ["a", "b", "c"]
ALLCATS = ["a", "b", "c", "zz"]          # "zz" never occurs in a unit
CFG = """SPECIFICATION Spec
CONSTANTS
 NA = {na}
 MaxT = {maxt}
 Alphas = {{0, 1, 3}}
 DEs = {{1, 2}}
INVARIANT NonNegative
INVARIANT Bounded
INVARIANT ZeroWhenAgree
INVARIANT AbsentCategory
INVARIANT KIsRestriction
"""


def fxv(x):
    return int(round(float(x) * FX))


def l1(rep, tier):
    for na, maxt in ([(2, 2)] if tier == "quick" else [(2, 2), (3, 1)]):
        res = tlc.run("MC_GammaCat", CFG.format(na=na, maxt=maxt), label=f"MC_GammaCat NA={na} MaxT={maxt}", workers=16, timeout=1800)
        if res.violated or res.errors:
            raise MachineryError(f"MC_GammaCat: {res.violated} {res.errors}\n{res.trace_text[:1500]}")
        rep.add_tlc(res)


def make_dissim(pa, rng):
    from sortedcontainers import SortedSet
    # alpha as a fraction (numerator, denominator): small positional weights keep the confidence of far-apart co-aligned
    # units above 0 (with alpha >= 1 it is 0 as soon as the units do not overlap)
    alpha, ad = rng.choice([(0, 1), (1, 1), (3, 1), (1, 4), (1, 2), (1, 4), (1, 8)])
    de = rng.choice([1, 2])
    af = alpha / ad
    if rng.random() < 0.5:
        d = pa.CombinedCategoricalDissimilarity(alpha=af, beta=rng.choice([1, 2]), delta_empty=de)
        return d, {"alpha": alpha, "ad": ad, "de": de, "cattype": "abs", "M": []}
    k = len(ALLCATS)
    m4 = [[0] * k for _ in range(k)]
    for i in range(k):
        for j in range(i):
            m4[i][j] = m4[j][i] = rng.choice([1, 2, 3, 4])
    m = np.array(m4, dtype=np.float32) / 4
    d = pa.CombinedCategoricalDissimilarity(alpha=af, beta=1, delta_empty=de,
                                            cat_dissim=pa.PrecomputedCategoricalDissimilarity(SortedSet(ALLCATS), m, delta_empty=de))
    return d, {"alpha": alpha, "ad": ad, "de": de, "cattype": "pre", "M": m4}


def grid_continuum(pa, rng, n_ann, max_units):
    from pyannote.core import Segment
    c = pa.Continuum()
    for a in range(n_ann):
        c.add_annotator(f"g{a}")
        for _ in range(rng.randint(0 if a else 1, max_units)):
            s = rng.randint(0, 9)           # durations <= 3 on 0..12: hand-built tuples often pair units with a gap between them
            c.add(f"g{a}", Segment(float(s), float(s + rng.randint(1, 3))), rng.choice(LABS))
    return c


def hand_alignment(pa, rng, c):
    anns = list(c.annotators)
    pools = {a: list(c[a]) for a in anns}
    for a in anns:
        rng.shuffle(pools[a])
    uas = []
    while any(pools.values()):
        tup = [(a, pools[a].pop()) if pools[a] and rng.random() < 0.7 else (a, None) for a in anns]
        if all(u is None for _, u in tup):
            continue
        rng.shuffle(tup)
        uas.append(pa.UnitaryAlignment(tup))
    return pa.Alignment(uas, c)


def encode_alignment(al):
    rank = {n: i + 1 for i, n in enumerate(ALLCATS)}
    out = []
    for ua in al.unitary_alignments:
        out.append([[] if u is None else [int(u.segment.start), int(u.segment.end), rank[u.annotation]] for _, u in ua.n_tuple])
    return out


def disorder_records(pa, rng, count, rep):
    recs, metas = [], []
    rank = {n: i + 1 for i, n in enumerate(ALLCATS)}
    while len(recs) < count:
        n_ann = rng.choice([2, 2, 3, 3, 4, 5])
        c = grid_continuum(pa, rng, n_ann, 3 if n_ann <= 3 else 2)
        if not c or c.num_units > 9:
            continue
        d, A = make_dissim(pa, rng)
        kind = rng.choice(["hand", "hand", "best", "soft", "hand_soft"])
        try:
            if kind == "hand_soft":
                # a hand-built COVER: a partition plus one or two more unitary alignments that repeat a pair of co-aligned units
                # next to another third unit (the weighted mean runs over every occurrence of a pair)
                base = hand_alignment(pa, rng, c)
                uas = list(base.unitary_alignments)
                rich = [ua for ua in uas if sum(1 for _, u in ua.n_tuple if u is not None) >= 2]
                for ua in rng.sample(rich, min(len(rich), rng.randint(1, 2))):
                    tup = list(ua.n_tuple)
                    reals = [i for i, (_, u) in enumerate(tup) if u is not None]
                    keep = set(rng.sample(reals, 2))
                    new = []
                    for i, (a, u) in enumerate(tup):
                        if i in keep:
                            new.append((a, u))
                        else:
                            pool = [x for x in c[a] if x != u]
                            new.append((a, rng.choice(pool) if pool and rng.random() < 0.7 else None))
                    uas.append(pa.UnitaryAlignment(new))
                al = pa.alignment.SoftAlignment(uas, c)
            else:
                al = hand_alignment(pa, rng, c) if kind == "hand" else (c.get_best_alignment(d) if kind == "best" else c.get_best_soft_alignment(d))
        except Exception as ex:
            rep.violation("gammacat.raises", {"exception": repr(ex), "continuum": align.continuum_summary(c)})
            continue
        # a second combined dissimilarity with the same alpha and delta_empty but another categorical component,
        # evaluated on the SAME alignment object: a value must not depend on what was asked before
        d_other, A_other = make_dissim(pa, rng)
        tries = 0
        while (A_other["cattype"] == A["cattype"] and A_other["M"] == A["M"]) and tries < 5:
            d_other, A_other = make_dissim(pa, rng)
            tries += 1
        A_other = dict(A_other, alpha=A["alpha"], ad=A["ad"], de=A["de"])
        af = A["alpha"] / A["ad"]
        if A_other["cattype"] == "abs":
            d_other = pa.CombinedCategoricalDissimilarity(alpha=af, beta=1, delta_empty=A["de"])
        else:
            from sortedcontainers import SortedSet
            d_other = pa.CombinedCategoricalDissimilarity(alpha=af, beta=1, delta_empty=A["de"],
                                                          cat_dissim=pa.PrecomputedCategoricalDissimilarity(SortedSet(ALLCATS), np.array(A_other["M"], dtype=np.float32) / 4, delta_empty=A["de"]))
        for cat, dd, AA in [(x, d, A) for x in [None] + LABS[:2] + ["zz"]] + [(x, d_other, A_other) for x in [None, LABS[0]]] + [(None, d, A)]:
            try:
                v = al.gamma_k_disorder(dd, cat)
            except Exception as ex:
                rep.violation("gammacat.raises", {"exception": repr(ex), "category": cat, "continuum": align.continuum_summary(c)})
                continue
            recs.append({"kind": "disorder", "alpha": AA["alpha"], "ad": AA["ad"], "de": AA["de"], "cattype": AA["cattype"], "M": AA["M"],
                         "category": 0 if cat is None else rank[cat], "tuples": encode_alignment(al), "obs": fxv(v),
                         "observed": 0, "chance": [], "value": 0, "which": "", "raised": ""})
            metas.append({"alignment": kind, "category": cat, "A": AA, "value": float(v), "continuum": align.continuum_summary(c),
                          "tuples": [[(a, None if u is None else [u.segment.start, u.segment.end, u.annotation]) for a, u in ua.n_tuple] for ua in al.unitary_alignments]})
            rep.case(key=json.dumps([recs[-1]["tuples"], AA, cat]))
    return recs, metas


def combine_records(pa, rng, count, rep):
    recs, metas = [], []
    for _ in range(count):
        c = grid_continuum(pa, rng, rng.choice([2, 3]), 4)
        if not c or any(len(c[a]) == 0 for a in c.annotators):
            continue
        d, A = make_dissim(pa, rng)
        np.random.seed(rng.randint(0, 2 ** 31 - 1))
        try:
            res = c.compute_gamma(d, n_samples=rng.choice([3, 6]), soft=rng.random() < 0.3)
        except Exception as ex:
            rep.violation("gammacat.raises", {"exception": repr(ex), "continuum": align.continuum_summary(c)})
            continue
        for which, cat in [("cat", None)] + [("k", x) for x in list(c.categories)[:2]]:
            obs = res.best_alignment.gamma_k_disorder(d, cat)
            chance = [a.gamma_k_disorder(d, cat) for a in res.chance_alignments]
            try:
                value = res.gamma_cat if which == "cat" else res.gamma_k(cat)
            except ZeroDivisionError:
                continue          # gamma-k with a zero mean chance disorder: named deviation, not judged
            if not np.isfinite(value):
                continue
            recs.append({"kind": "combine", "which": which, "observed": fxv(obs), "chance": [fxv(x) for x in chance], "value": fxv(value),
                         "alpha": 0, "de": 1, "cattype": "abs", "M": [], "category": 0, "tuples": [], "obs": 0, "raised": ""})
            metas.append({"which": which, "category": cat, "observed": float(obs), "chance": [float(x) for x in chance], "value": float(value)})
            rep.case(key=json.dumps(metas[-1]))
    # annotators that agree exactly on the positions and differ in categories, positional weight only (beta = 0):
    # the overall observed disorder is exactly 0 while the categorical one is not
    from pyannote.core import Segment
    for _ in range(max(3, count // 6)):
        c = pa.Continuum()
        segs = [(float(3 * i), float(3 * i + rng.randint(1, 3))) for i in range(rng.randint(2, 4))]
        for a in range(rng.choice([2, 3])):
            for s0, e0 in segs:
                c.add(f"g{a}", Segment(s0, e0), rng.choice(LABS))
        d = pa.CombinedCategoricalDissimilarity(alpha=rng.choice([1, 3]), beta=0, delta_empty=1)
        np.random.seed(rng.randint(0, 2 ** 31 - 1))
        res = c.compute_gamma(d, n_samples=4)
        obs = res.best_alignment.gamma_k_disorder(d, None)
        chance = [a.gamma_k_disorder(d, None) for a in res.chance_alignments]
        value = res.gamma_cat
        if np.isfinite(value):
            recs.append({"kind": "combine", "which": "cat", "observed": fxv(obs), "chance": [fxv(x) for x in chance], "value": fxv(value),
                         "alpha": 0, "de": 1, "cattype": "abs", "M": [], "category": 0, "tuples": [], "obs": 0, "raised": ""})
            metas.append({"which": "cat", "agreeing_positions_beta_0": True, "overall_observed_disorder": float(res.observed_disorder),
                          "observed": float(obs), "chance": [float(x) for x in chance], "value": float(value)})
    # refusal for non-combined dissimilarities (also on a perfectly agreeing continuum, where the overall disorder is 0)
    for d in (pa.PositionalSporadicDissimilarity(), pa.AbsoluteCategoricalDissimilarity(), pa.PositionalSporadicDissimilarity(), pa.AbsoluteCategoricalDissimilarity()):
        c = grid_continuum(pa, rng, 2, 3)
        if len(metas) % 2 == 0:
            c = pa.Continuum()
            for a in ("g0", "g1", "g2"):
                for i in range(3):
                    c.add(a, Segment(float(4 * i), float(4 * i + 2)), "a")
        al = c.get_best_alignment(d)
        raised = "none"
        try:
            al.gamma_k_disorder(d, None)
        except Exception as ex:
            raised = type(ex).__name__
        recs.append({"kind": "refuse", "raised": raised, "which": "", "observed": 0, "chance": [], "value": 0,
                     "alpha": 0, "de": 1, "cattype": "abs", "M": [], "category": 0, "tuples": [], "obs": 0})
        metas.append({"refuse": type(d).__name__, "raised": raised})
        np.random.seed(1)
        res = c.compute_gamma(d, n_samples=2)
        raised = "none"
        try:
            res.gamma_cat
        except Exception as ex:
            raised = type(ex).__name__
        recs.append(dict(recs[-1], raised=raised))
        metas.append({"refuse": type(d).__name__ + " via GammaResults.gamma_cat", "raised": raised})
    return recs, metas


def judge(recs):
    path = scratch() / f"gcat-{random.getrandbits(32):08x}.json"
    for r in recs:
        r.setdefault("ad", 1)
    path.write_text(json.dumps({"recs": recs}))
    res = tlc.run("TraceGammaCat", "SPECIFICATION Spec\nCONSTRAINT Verdicts\n", label="TraceGammaCat", env={"TRACE_FILE": str(path)},
                  workers=16, timeout=1500, coverage=False)
    path.unlink(missing_ok=True)
    if res.errors or res.violated:
        raise MachineryError(f"TraceGammaCat did not run cleanly: {res.errors} {res.violated}\n{res.out[-2500:]}")
    done, verdicts = set(), {}
    for p in res.printed:
        if "done" in p:
            done.add(p["done"] - 1)
        elif "verdict" in p:
            verdicts.setdefault(p["tid"] - 1, set()).add(p["verdict"])
    if done != set(range(len(recs))):
        raise MachineryError("TraceGammaCat did not judge every record")
    return res, verdicts


def run(tier, rep):
    pa = import_repo()
    rng = random.Random(seed() * 1000003 + 12)
    quick = tier == "quick"
    rep.rule = ("alignment objects on an integer grid x combined dissimilarity (alpha, delta_empty, categorical component) x category; "
                "gamma runs for the combination rule; distinct = (alignment, parameters, category)")
    rep.assumptions += ["the exit taken when no pair of real units is counted (1.0 if nothing matched the category, else 0.0) is a named deviation and not judged",
                        "gamma-k with a zero mean chance disorder (-inf / ZeroDivisionError) is not judged"]
    l1(rep, tier)
    recs, metas = disorder_records(pa, rng, 600 if quick else 12000, rep)
    r2, m2 = combine_records(pa, rng, 25 if quick else 400, rep)
    recs += r2
    metas += m2
    for i in range(0, len(recs), 4000):
        res, verdicts = judge(recs[i:i + 4000])
        rep.add_tlc(res)
        for k, names in verdicts.items():
            rep.violation("gammacat." + "+".join(sorted(names)), {"clauses": sorted(names), "meta": metas[i + k],
                                                                  "record": {x: y for x, y in recs[i + k].items() if x != "M"}})
    rep.traces += len(recs)
    rep.sample({"meta": metas[0], "record": recs[0]})
    rep.extra["records_by_kind"] = {k: sum(1 for r in recs if r["kind"] == k) for k in ("disorder", "combine", "refuse")}


def replay(path, rep):
    d = json.loads(open(path).read())
    print(json.dumps(d["detail"], indent=1)[:5000])
