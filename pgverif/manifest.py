"""Generates /verif/MANIFEST.json from one table (python3 -m pgverif.manifest)."""
import json
from pathlib import Path

CLAIMED = {
    "C13": dict(
        text="TLC explores every reachable state of a bounded container model (2 objects, 2 annotators, 3-4 time points, "
             "labels incl. none, <=3 units, <=4-5 calls) against the container invariants and action properties, with "
             "mutant variants of the spec that must be rejected; every transition of that state graph is then executed "
             "on real Continuum objects and the projected state compared with the spec's successor (spec->code), and "
             "long random histories on real objects with float times and odd labels are judged clause by clause by "
             "TraceContinuum.tla (code->spec).",
        note="Trusted: TLC, the rank encoding of floats/strings (Python sort order), sortedcontainers. Histories are bounded "
             "(exhaustive to depth 4-5 on the small universe, random to length 60).",
        technique="TLA+ spec + TLC exhaustive model checking; transition-graph replay into the code; trace validation by TLC",
        design="4/C13"),
}
PENDING = {}

ALL = [f"C{i:02d}" for i in range(1, 21)]


def build():
    checks = []
    for pid, c in sorted(CLAIMED.items()):
        checks.append({
            "property_id": pid,
            "quick_cmd": f"bin/check {pid} --tier quick",
            "thorough_cmd": f"bin/check {pid} --tier thorough",
            "evidence_file": f"/verif/evidence/{pid}.json",
            "replay_cmd_template": f"bin/check {pid} --replay {{path}}",
            "engine": "tlc",
            "level_claimed": {"category": "model_checking", "text": c["text"], "design_ref": c["design"]},
            "level_note": c["note"],
            "technique": c["technique"],
        })
    na = [{"property_id": p, "reason": PENDING.get(p, "check not built yet in this round (planned, see DESIGN.md section 4)")}
          for p in ALL if p not in CLAIMED]
    m = {
        "version": 1,
        "setup_cmd": "bin/setup",
        "hooks": {
            "guard": "PYGAMMA_AGREEMENT_VERIF",
            "enable": "no repository-side hooks: all observation is done by harness-side wrappers; bin/check exports PYGAMMA_AGREEMENT_VERIF=1 for uniformity",
            "baseline_off_cmd": "cd /repo && env -u PYGAMMA_AGREEMENT_VERIF /venv/bin/python -m pytest -ra -q -p no:cacheprovider --timeout=900 --continue-on-collection-errors",
            "source_commits": [],
            "add_only": True,
        },
        "engines": [{"name": "tlc", "path": "/verif/pgverif/tlc.py", "serves_properties": sorted(CLAIMED),
                     "kind_free_text": "TLC 1.8 on the TLA+ modules in /verif/spec (exhaustive BFS, simulation, batched trace validation)"}],
        "checks": checks,
        "not_applicable": na,
        "notes": "Model-based verification with an explicit TLA+ specification; see DESIGN.md. Known findings: KNOWN_FINDINGS.txt.",
    }
    Path("/verif/MANIFEST.json").write_text(json.dumps(m, indent=1) + "\n")


if __name__ == "__main__":
    build()
