"""Generates /verif/MANIFEST.json from one table (python3 -m pgverif.manifest)."""
import json
from pathlib import Path

CLAIMED = {
    "C13": dict(
        text="TLC explores every reachable state of a bounded container model (2 objects, 2 annotators, 3-4 time points, "
             "labels incl. none, <=3 units, <=4-5 calls) against the container invariants and action properties, with "
             "mutant variants of the spec that must be rejected; every transition of that state graph is then executed "
             "on real Continuum objects and the projected state compared with the spec's successor (spec->code), and "
             "long random histories on real objects with float times and odd labels are judged clause by clause by "
             "TraceContinuum.tla (code->spec). add_timeline / add_annotation (AddMany) and derived observables are "
             "included; for unbounded histories Apalache checks that the well-formedness invariant is inductive on a "
             "typed restatement of the model.",
        note="Trusted: TLC, the rank encoding of floats/strings (Python sort order), sortedcontainers. Histories are bounded "
             "(exhaustive to depth 4-5 on the small universe, random to length 60).",
        technique="TLA+ spec + TLC exhaustive model checking; transition-graph replay into the code; trace validation by TLC",
        design="4/C13"),
    "C01": dict(
        text="TLC enumerates bounded universes of alignment instances (2-5 annotators, arbitrary pairwise tables incl. ties at "
             "the threshold, empty annotators) and proves on them that the candidates always admit a partition; every such "
             "instance is realised exactly in the real code (unique category per unit + precomputed matrix) and aligned under "
             "both MIP back-ends, plus random continua (unlabelled, coincident, nested units; every built-in dissimilarity and "
             "parameter); each returned alignment is judged by TraceAlign.tla: one slot per annotator, no foreign unit, >= 1 "
             "real unit, every unit exactly once; any exception of the computation is a violation.",
        note="Trusted: TLC; the encoding of units as (annotator rank, index). Instances are bounded (exhaustive small grids, "
             "random up to 2x12 / 5x3).",
        technique="TLA+ spec (Align/MC_Align) model-checked by TLC; TLC-enumerated instances replayed into the code; results trace-validated by TLC (TraceAlign)",
        design="4/C01"),
    "C02": dict(
        text="TLC checks the pruning theorem (minimum over candidates = minimum over all tuples) on every instance of the "
             "bounded universes, with a mutant threshold that must be rejected; the code's best alignment of each "
             "TLC-enumerated instance must cost exactly TLC's optimum; for random continua x built-in dissimilarities "
             "(table observed through the compiled form) optimality is decided by TLC as a reachability question: a "
             "branch-and-bound state space over ALL alignments that reaches a complete cheaper alignment iff the claim is wrong.",
        note="Optimality search bounded to <= 12 units per instance; float32 tolerance 8*2^-14 per tuple; both back-ends.",
        technique="TLC model checking of the pruning theorem + TLC exhaustive search (branch-and-bound as state space) over recorded instances",
        design="4/C02"),
    "C03": dict(
        text="The definition of unitary and alignment disorder is written once in Align.tla (sum over annotator pairs, "
             "delta_empty for an empty side, divided by C(n,2); total over mean units per annotator); every alignment the "
             "library returns (best, soft, fast) and hand-built partitions with arbitrary empty-slot patterns and slot orders, "
             "with and without attached continuum, are recorded with carried, recomputed, single-unitary and permuted-slot "
             "disorders and judged against it by TLC. The life cycle of alignment OBJECTS is a state machine of its own "
             "(AlignObj.tla: compute_disorder / lazy .disorder / unitary .disorder raising until computed / disorder and "
             "n_tuple setters / UnitaryAlignment.compute_disorder, two Alignment objects sharing their unitary objects, two "
             "dissimilarities): TLC explores every history on a small instance (FreshAgree, Invalidated, LazyTotal; two "
             "design mutants rejected; the code's stale-total deviation reachable) and random histories on real objects are "
             "judged event by event by TraceAlignObj.tla.",
        note="Pairwise values are taken through the compiled form (C04 ties that to the formulas); soft alignments without "
             "continuum excluded. One known finding (UnitaryAlignment.compute_disorder with an empty slot, pinned by a test).",
        technique="TLA+ definition of disorder evaluated by TLC on recorded alignments (trace validation); TLC model checking of the alignment-object life cycle (AlignObj.tla) bound by transition replay (spec -> code) and event-by-event trace validation (code -> spec)",
        design="4/C03"),
    "C07": dict(
        text="Enum.tla models the enumerator step by step (mixed-radix counter, filter, buffer growth by half, final slice) for "
             "every set of passing tuples; TLC proves it yields exactly the passing tuples once each without the all-empty "
             "one, across growth, with mutants (growth dropping an entry, slice keeping the last) rejected; MC_Align proves "
             "the all-empty tuple always passes; the code's valid_alignments() on TLC-enumerated and random instances, and "
             "on instances crossing the 10 000 / 15 000 / 22 500 growth boundaries, is compared by TLC with the closed form.",
        note="Ties at the threshold within the float32 band are don't-care on observed tables; exact on dyadic tables.",
        technique="TLC model checking of the stepwise enumerator (Enum.tla) + TLC trace validation of candidate lists",
        design="4/C07"),
    "C08": dict(
        text="Every instance (TLC-enumerated and random) is aligned twice, as installed (CBC) and with cylp masked so the "
             "library's own fallback branch runs (GLPK_MI); a probe on cvxpy.Problem.solve logs which solver ran (a NOTE if it is "
             "not the expected one: the statement fixes the results, not the choice); both "
             "results must be partitions / covers and both must be optimal by TLC's own search (not merely equal); a third "
             "configuration injects a cvxpy SolverError into the CBC solve (cylp importable, CBC failing at run time). "
             "Medium and dense continua beyond the search must at least get the same cost from both back-ends.",
        note="The run-time failure of CBC is injected in the harness-side probe on cvxpy.Problem.solve, not produced by CBC itself.",
        technique="TLC trace validation of paired runs under both solver configurations; BackendFree invariant in MC_Align",
        design="4/C08"),
    "C11": dict(
        text="As C01/C02 for the soft alignment: cover instead of partition, TLC's SoftPruneSafe and SoftLE theorems on the "
             "bounded universes, TLC's optimum for TLC-enumerated instances, exhaustive cover search for recorded ones, and "
             "soft cost <= partition cost on every instance; both back-ends.",
        note="Cover search bounded to <= 12 units.",
        technique="TLC model checking (MC_Align) + TLC exhaustive cover search over recorded instances",
        design="4/C11"),
    "C10": dict(
        text="FastAlign.tla models get_fast_alignment step for step (head selection in rounds of smallest end, x_limit, "
             "extension, any optimal window alignment, take_until_limit, removal) and TLC explores every continuum of "
             "integer-grid universes under every solver tie: progress of every iteration, termination, partition at the "
             "end, never below the optimum, equal when the window covers everything; the pre-fix take_until_limit is the "
             "mutant that must stall. Every such continuum is run through the real code under an iteration watchdog and "
             "its cost must be one TLC reaches; random continua x dissimilarities x window sizes are recorded per "
             "iteration and judged by TraceFast.tla / TraceAlign.tla (termination and results are violations; departures "
             "from the modelled iteration scheme alone are NOTEs); fast-mode gamma jobs log the algorithm they used and "
             "the fast-vs-exact decision is compared with the documented estimate where that is clear-cut.",
        note="The step model uses the positional dissimilarity on integer grids; other dissimilarities are bound through "
             "the recorded iterations (structure) and results (TraceAlign) only.",
        technique="TLA+ step model (FastAlign) model-checked by TLC incl. liveness; spec behaviours replayed into the code; iteration traces validated by TLC",
        design="4/C10"),
    "C15": dict(
        text="StatSampler.tla is the sampler as a machine consuming draws (count with the max(1,.) guard, gap, duration with "
             "the redraw loop, category); TLC checks validity of the output for every draw sequence over a small domain "
             "(mutants: guard removed, abs removed). Probes on np.random.normal/choice record every draw (arguments, "
             "result) of real samples; TraceStatSampler.tla feeds them to the same actions, requires the returned "
             "continuum to be the one built from them, and checks every draw's law parameters against the supplied ones "
             "or the exact mean/variance TLC computes on the integer-grid reference.",
        note="Assumed: numpy's generators follow the law requested (TLA+ has no probability). Gap estimator: the code's "
             "variant and three neighbours accepted (not fixed by the statement).",
        technique="TLA+ machine over draws model-checked by TLC; recorded RNG draws and outputs trace-validated by TLC",
        design="4/C15"),
    "C16": dict(
        text="ShuffleSampler.tla models pivot drawing and the interval bookkeeping on an integer line for both pivot types; "
             "TLC checks separation, that no available point lies within the distance of an earlier pivot, bounds and "
             "whole-number pivots (mutant: the pre-fix interval subtraction). For real samples TraceShuffle.tla lets TLC "
             "infer, per sampled annotator, the source annotator and pivot that explain it under the wrap rule, requires "
             "the pivot to be one of the uniform draws really made, and replays the pivots through the bookkeeping. "
             "Apalache checks the bookkeeping invariant inductively for unbounded bounds, distance and pivot count.",
        note="Times in 1/1000 fixed point, tolerance 2/1000. Known finding: int() truncation in int_pivot mode (deficit < 1).",
        technique="TLA+ model of the pivot bookkeeping model-checked by TLC; recorded samples explained and judged by TLC (trace validation with inference)",
        design="4/C16"),
    "C05": dict(
        text="GammaRun.tla models compute_gamma as main thread + worker pool; TLC explores all interleavings: exactly N + extra "
             "samples are drawn and aligned, none without a precision level, results collected in sampling order, "
             "termination. Every real run (random continuum x mode x sampler x precision x n_samples x ground truth) is "
             "recorded by a recording executor, recording sampler subclasses and algorithm probes and judged by "
             "TraceGamma.tla: sample count = max(n, ceil((1.96 CV/p)^2)) decided with exact big-number arithmetic in TLA+, "
             "one fresh valid sample per chance alignment in order, requested kind of alignment for input and samples, "
             "observed/expected/gamma relations, approx_gamma_range, gamma <= 1, gamma = 1 for identical annotators; "
             "sampler objects are reused across runs with other ground-truth sets. PyGamma.tla composes GammaRun with "
             "Align's optimum and the exact count rule (refinement of GammaRun checked); every scenario TLC finishes "
             "(input instance, scripted sampler output, n, precision, mode) is run through the real compute_gamma with a "
             "scripted sampler and observed / chance sequence / count / gamma must equal the spec's exact values.",
        note="CV^2 enters TLC as a rational approximation (denominator <= 1e9) of the float the library computed from the "
             "logged first-batch disorders; a relative band of 1e-7 around the ceil is not judged. Named precision levels "
             "per the code's table (high 1%, medium 2%, low 10%).",
        technique="TLC model checking of the concurrent run (GammaRun, PyGamma) + TLC-generated scenarios replayed into compute_gamma "
                  "+ TLC trace validation of recorded runs (TraceGamma, BigNat)",
        design="4/C05"),
    "C06": dict(
        text="TLC checks on GammaRun.tla, over all interleavings and 1-3 workers, that the chance sequence is a function of the "
             "seed alone (mutants: sampling inside the job, collection in completion order). The job completion orders TLC "
             "reaches, plus FIFO/LIFO/lazy/eager and random permutations, drive a schedule-controlled executor substituted "
             "for ThreadPoolExecutor (real distinct threads, one job at a time); real pools of 1/2/4/16 workers, repetition "
             "in one process and fresh processes with other PYTHONHASHSEED values complete the environments. All result "
             "vectors (observed, chance sequence, gamma, gamma-cat, gamma-k) of one configuration and seed must be "
             "bit-identical (that is what is judged; whether the recorded pool events show every draw in the main thread before "
             "its job's submission - the design GammaRun models - is reported as a NOTE only). "
             "GammaRun is also checked to refine GammaAtomic (compute_gamma as one atomic step from the seed).",
        note="Interleavings inside a job (numba, cvxpy, CBC) are not modelled; exact float equality is used because the "
             "unchanged tree shows no last-bit noise.",
        technique="TLC model checking over all schedules + TLC-generated schedules replayed through a controlled executor; trace validation of pool events",
        design="4/C06"),
    "C04": dict(
        text="Dissim.tla states the documented formulas in exact rational arithmetic; TLC checks their algebra on an integer "
             "grid (symmetry, non-negativity, zero on identical units, shift/scale invariance, linearity in delta_empty, "
             "ordinal distance independent of supply order). For every class x delta_empty x alpha,beta x supplied label "
             "order x category count (1..300, pairs straddling 127) x component delta_empty the harness evaluates d(u,v), "
             "d(v,u) and the compiled form on grid and float unit pairs and TraceDissim.tla judges them against the "
             "formula it evaluates itself.",
        note="Levenshtein: relations only; ordinal/numerical: proportionality to the supplied positions (normaliser not fixed "
             "by the statement); explicit positional component with its own delta_empty not generated.",
        technique="TLA+ formulas (Dissim) checked by TLC; observed values of the real dissimilarities judged by TLC against them (trace validation)",
        design="4/C04"),
    "C09": dict(
        text="The optimum depends only on the abstract problem (sizes, pairwise table): TLC checks on MC_Align's universes that "
             "reversing the annotators leaves it unchanged and doubling every cost doubles it, and on MC_Dissim that the "
             "positional formula is shift/scale invariant and every formula linear in delta_empty. Large random continua "
             "(2x60, 3x15, 5x5) are aligned before and after every transformation x dissimilarity combination with exactly "
             "representable parameters, with same-seed gamma for the delta_empty factor; TraceInvariance.tla judges.",
        note="Only constraint placed on inputs too large for the optimality search. Tolerance 2e-5 relative.",
        technique="TLC-checked invariance lemmas on the spec + metamorphic pairs of real runs judged by TLC",
        design="4/C09"),
    "C12": dict(
        text="GammaCat.tla defines the weighted mean (1/(k-1) * max(0, 1 - alpha*pos) weights, unit/empty pairs at delta_empty "
             "with weight delta_empty, category filter for gamma-k) exactly on an integer grid; TLC checks boundedness, zero "
             "on agreeing alignments, absent categories, gamma-k as restriction. Real Alignment objects (hand-built with "
             "any empty-slot pattern, best, soft; 2-5 annotators) x alpha x delta_empty x categorical component x category "
             "are evaluated by the library and compared by TLC with its exact value; gamma runs give the combination rule "
             "(1 if observed 0, 1 - observed/mean), <= 1, and the TypeError refusal.",
        note="Not judged: the exit when no pair of real units is counted; gamma-k with zero mean chance disorder.",
        technique="TLA+ definition evaluated exactly by TLC (BigNat comparison) on recorded alignments; TLC model checking of its algebra",
        design="4/C12"),
    "C14": dict(
        text="In the container spec every call changes at most one object of a heap of independent values (TLC: "
             "OneObjectPerCall, RejectedIsNoOp); computations are the action Compute (heap unchanged), fast-mode gamma the "
             "action FastGamma (only the input's window size), results the action Derive (a new object of its own). Random "
             "sessions on real objects mix every public computation entry point (alignments, disorders, gamma in every "
             "mode, gamma-cat/k, sampler initialisation and draws, corpus generation and shuffling, first windows) with "
             "later mutations of sources and of returned continua; after every step the projection of every live continuum "
             "and a digest of every dissimilarity (class, parameters, categories, matrix bytes, component identity/state) is "
             "judged by TraceContinuum.tla. The transition-graph replay of C13 compares all live objects after each call.",
        note="measure_best_window_size is a mutator by design. Dissimilarities are observed through a digest, not field by field.",
        technique="TLA+ heap spec with frame conditions checked by TLC; recorded sessions of the real library trace-validated by TLC",
        design="4/C14"),
    "C17": dict(
        text="Check.tla gives the outcome of both checks as a function of the bag of unitary alignments (TLC: order "
             "independent, partition implies cover, ok iff IsPartition). TLC enumerates every sequence of <= 3-4 unitary "
             "alignments over the units of small continua - every bag in every order, valid or with dropped / duplicated / "
             "moved units - and each is presented as a real Alignment / SoftAlignment to check(), check(continuum) and both "
             "constructors with check_validity=True, also with slots listed in another order; larger random continua with "
             "mutated alignments are judged by TraceAlign's partition / cover clauses against the library's verdict.",
        note="L2 candidate alignments range over the continuum's own (annotator, unit) pairs; L3 also places units in another "
             "annotator's slot (at most once per foreign pair).",
        technique="TLC enumeration of all small cases with the spec's expected outcome, replayed into the code; TLC trace validation for larger ones",
        design="4/C17"),
    "C18": dict(
        text="IO.tla: the CSV field codec over {letter, delimiter, quote, space, LF, CR} composed with the text layer round-trips "
             "every field of length <= 4-5 (TLC; the pre-fix newline translation is the mutant that must fail), plus the row "
             "and tier reading rules. TLC enumerates abstract CSV files (all row sequences incl. zero-length / reversed "
             "segments x discard flag) and tiered files (marks, tier selections, label modes) with the expected continuum; "
             "the harness writes real CSV / TextGrid / ELAN / RTTM files with odd strings, delimiters and float times, reads "
             "them through the library and compares; CSV round trips cover every string of length <= 3 over the codec "
             "alphabet and unicode; random continua round-trip through TraceContinuum.",
        note="Trusted: csv, pandas (RTTM), textgrid, pympi for their own formats; values those writers cannot carry are not generated.",
        technique="TLA+ codec and reading rules checked by TLC; TLC-enumerated abstract files replayed through real files",
        design="4/C18"),
    "C19": dict(
        text="Cst.tla models each perturbation per annotator with every random draw as an environment choice; TLC checks for "
             "all choices: never empty, positive durations, only reference categories, magnitude 0 = copy, and confinement "
             "as action properties (mutants: no security unit, split keeping the original). The real tool is run on seeded "
             "references - each perturbation alone and corpus_shuffle under all 32 flag combinations x magnitudes x "
             "annotator counts/names x include_ref - and TraceCst.tla judges validity and confinement from the corpus "
             "before and after.",
        note="Coincidences of independent real draws are not modelled; the zero-length split fallback is a named branch.",
        technique="TLA+ model of the perturbations model-checked by TLC; recorded tool runs trace-validated by TLC",
        design="4/C19"),
    "C20": dict(
        text="Cli.tla is the decision table options -> effective API configuration over the whole option space (73 728 "
             "records; TLC: each option changes the field it names; mutant: -d numerical ignored). For the -d x output x -c "
             "x -k sub-table exhaustively (other options sampled) the tool is run in-process on generated CSV / RTTM files: "
             "a probe on compute_gamma shows the configuration really used, which must be the spec's, and the printed / "
             "CSV / JSON numbers must equal those of the API called with that configuration and seed, per input file.",
        note="pygamma_cmd() is driven in-process (sys.argv), not through the console script. Relative tolerance 1e-6.",
        technique="TLA+ decision table checked by TLC; TLC-enumerated option records replayed through the CLI and the API",
        design="4/C20"),
}
PENDING = {}

ALL = [f"C{i:02d}" for i in range(1, 21)]


def build():
    checks = []
    for pid, c in sorted(CLAIMED.items()):
        checks.append({
            "property_id": pid,
            "quick_cmd": f"bin/check {pid} --tier quick",
            "thorough_cmd": f"bin/check {pid} --tier thorough",
            "evidence_file": f"/verif/evidence/{pid}.json",
            "replay_cmd_template": f"bin/check {pid} --replay {{path}}",
            "engine": "tlc",
            "level_claimed": {"category": "model_checking", "text": c["text"], "design_ref": c["design"]},
            "level_note": c["note"],
            "technique": c["technique"],
        })
    na = [{"property_id": p, "reason": PENDING.get(p, "check not built yet in this round (planned, see DESIGN.md section 4)")}
          for p in ALL if p not in CLAIMED]
    m = {
        "version": 1,
        "setup_cmd": "bin/setup",
        "hooks": {
            "guard": "PYGAMMA_AGREEMENT_VERIF",
            "enable": "no repository-side hooks: all observation is done by harness-side wrappers; bin/check exports PYGAMMA_AGREEMENT_VERIF=1 for uniformity",
            "baseline_off_cmd": "cd /repo && env -u PYGAMMA_AGREEMENT_VERIF /venv/bin/python -m pytest -ra -q -p no:cacheprovider --timeout=900 --continue-on-collection-errors",
            "source_commits": [],
            "add_only": True,
        },
        "engines": [{"name": "tlc", "path": "/verif/pgverif/tlc.py", "serves_properties": sorted(CLAIMED),
                     "kind_free_text": "TLC 1.8 on the TLA+ modules in /verif/spec (exhaustive BFS, simulation, batched trace validation)"}],
        "checks": checks,
        "not_applicable": na,
        "notes": "Model-based verification with an explicit TLA+ specification; see DESIGN.md. Known findings: KNOWN_FINDINGS.txt.",
    }
    Path("/verif/MANIFEST.json").write_text(json.dumps(m, indent=1) + "\n")


if __name__ == "__main__":
    build()
