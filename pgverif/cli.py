"""C20 - command-line results equal the API results for the same options.

L1  TLC: Cli.tla - the decision table options -> effective configuration over the whole option space (73 728 option
    records): every categorical-dissimilarity choice and every option changes the field it names (the tool's pre-fix
    handling of -d numerical is the mutant that must fail).
L2  spec -> code: option records enumerated by TLC (the -d x output mode x -c x -k sub-table exhaustively, the rest
    sampled) are run through pygamma_cmd() in-process on generated CSV / RTTM files; a probe on Continuum.compute_gamma
    records the configuration the tool really used, which must be the spec's effective configuration; the numbers the
    tool prints / writes as CSV / writes as JSON must equal those of the API called with that configuration and seed.
"""
import contextlib
import csv
import io
import json
import os
import random
import sys

import numpy as np

from . import tlc
from .common import MachineryError, import_repo, scratch, seed

CFG = """SPECIFICATION Spec
CONSTANTS
 Variant = "{variant}"
 Emit = {emit}
CONSTRAINT EmitCase
INVARIANT DChoiceTakesEffect
INVARIANT OptionEffects
"""


def l1(rep):
    res = tlc.run("Cli", CFG.format(variant="none", emit="TRUE"), label="Cli option space", workers=16, timeout=1800, heap="8g")
    if res.violated or res.errors:
        raise MachineryError(f"Cli: {res.violated} {res.errors}")
    rep.add_tlc(res)
    r = tlc.run("Cli", CFG.format(variant="numerical_ignored", emit="FALSE"), label="mutant numerical_ignored", workers=8, timeout=600,
                coverage=False)
    if not (r.violated or any("DChoiceTakesEffect" in e for e in r.errors)):
        raise MachineryError(f"mutant numerical_ignored not rejected: {r.violated} {r.errors}")
    rep.extra.setdefault("mutants_killed", []).append("Cli:numerical_ignored")
    cases = [p for p in res.printed if "opts" in p]
    if not cases:
        raise MachineryError("Cli.tla emitted no option record")
    return cases


def write_inputs(rng, work, fmt, delim, k):
    """Generated input files: numeric labels whose lexical and numeric orders differ."""
    paths = []
    labels = ["1", "10", "2", "9"]
    for i in range(k):
        if i > 0 and rng.random() < 0.5:
            labels = sorted(labels, key=float)[: rng.randint(2, 3)]      # a later file with fewer categories and a smaller range
        rows = []
        for a in ["ann_b", "ann_a", "C"][: rng.randint(2, 3)]:
            t = 0.0
            for _ in range(rng.randint(2, 5)):
                t += rng.choice([0.5, 1.0, 2.25])
                d = rng.choice([0.75, 1.5, 3.0])
                rows.append((a, rng.choice(labels), round(t + rng.choice([0, 0.1, -0.2]), 3), round(t + d, 3)))
                t += d
        if fmt == "csv":
            p = work / f"in{i}.csv"
            with open(p, "w", newline="") as f:
                w = csv.writer(f, delimiter=delim)
                for a, l, s, e in rows:
                    w.writerow([a, l, s, e])
        else:
            p = work / f"in{i}.rttm"
            with open(p, "w") as f:
                for a, l, s, e in rows:
                    f.write(f"SPEAKER {a} 1 {s} {round(e - s, 3)} <NA> <NA> {l} <NA> <NA>\n")
        paths.append(p)
    return paths


def argv_for(o, paths, outpath):
    a = ["pygamma-agreement"] + [str(p) for p in paths]
    if o["d"] != "default":
        a += ["-d", o["d"]]
    for flag, key in (("-a", "a"), ("-b", "b"), ("-e", "e"), ("-p", "p"), ("-n", "n"), ("-s", "s")):
        if o[key] != "default":
            a += [flag, o[key]]
    if o["m"]:
        a.append("-m")
    if o["c"]:
        a.append("-c")
    if o["k"]:
        a.append("-k")
    a += ["--seed", o["seed"], "-f", o["f"]]
    if o["out"] == "csv":
        a += ["-o", str(outpath)]
    elif o["out"] == "json":
        a += ["-j", str(outpath)]
    return a


def api_numbers(pa, eff, paths, fast=True, soft=False):
    """The API calls the spec says the command line is equivalent to."""
    np.random.seed(int(eff["seed"]))
    out = []
    for p in paths:
        c = pa.Continuum.from_csv(p, delimiter=eff["delimiter"]) if eff["format"] == "csv" else pa.Continuum.from_rttm(p)
        cat = None
        if eff["cat"] == "NumericalCategoricalDissimilarity":
            cat = pa.NumericalCategoricalDissimilarity(c.categories)
        elif eff["cat"] == "LevenshteinCategoricalDissimilarity":
            cat = pa.LevenshteinCategoricalDissimilarity(c.categories)
        d = pa.CombinedCategoricalDissimilarity(alpha=float(eff["alpha"]), beta=float(eff["beta"]), delta_empty=float(eff["delta_empty"]),
                                                cat_dissim=cat)
        sampler = pa.ShuffleContinuumSampler() if eff["sampler"] == "ShuffleContinuumSampler" else None
        g = c.compute_gamma(dissimilarity=d, precision_level=float(eff["precision"]), fast=fast, soft=soft, sampler=sampler,
                            n_samples=int(eff["n_samples"]))
        e = {"gamma": float(g.gamma)}
        if "gamma-cat" in eff["reports"]:
            e["gamma-cat"] = float(g.gamma_cat)
        if "gamma-k" in eff["reports"]:
            e["gamma-k"] = {k: float(g.gamma_k(k)) for k in c.categories}
        out.append(e)
    return out


def parse_output(o, stdout, outpath, paths, delim):
    entries = []
    if o["out"] == "print":
        cur = None
        for line in stdout.splitlines():
            if line.startswith("gamma="):
                cur = {"gamma": float(line.split("=", 1)[1])}
                entries.append(cur)
            elif line.startswith("gamma-cat=") and cur is not None:
                cur["gamma-cat"] = float(line.split("=", 1)[1])
            elif line.startswith("gamma-k(") and cur is not None:
                name = line[len("gamma-k('"):line.index("')=")]
                cur.setdefault("gamma-k", {})[name] = float(line.split("=", 1)[1])
    elif o["out"] == "csv":
        with open(outpath, newline="") as f:
            rows = list(csv.reader(f, delimiter=delim))
        header = rows[0]
        for r in rows[1:]:
            e = {}
            for h, v in zip(header[1:], r[1:]):
                if h == "gamma-k":
                    d = eval(v, {"__builtins__": {}}, {"inf": float("inf"), "nan": float("nan")})   # a dict repr written by the tool
                    e[h] = {k: float(x) for k, x in d.items()}
                else:
                    e[h] = float(v)
            entries.append(e)
    else:
        data = json.loads(open(outpath).read())
        for p in paths:
            if str(p) in data:
                entries.append(data[str(p)])
        if len(data) != len(set(str(p) for p in paths)):
            entries.append({"unexpected_keys": sorted(data)})
    return entries


def close(a, b):
    if isinstance(a, dict) and isinstance(b, dict):
        return set(a) == set(b) and all(close(a[k], b[k]) for k in a)
    try:
        a, b = float(a), float(b)
    except (TypeError, ValueError):
        return False
    if a != a or b != b or a in (float("inf"), float("-inf")) or b in (float("inf"), float("-inf")):
        return repr(a) == repr(b)
    return abs(a - b) <= 1e-6 * max(1.0, abs(a), abs(b))


def run(tier, rep):
    pa = import_repo()
    from pygamma_agreement import cli_apps
    rng = random.Random(seed() * 1000003 + 20)
    quick = tier == "quick"
    rep.rule = ("option records enumerated by TLC: the -d x output x -c x -k sub-table exhaustively with the other options drawn at "
                "random, plus random records; each run on freshly generated CSV / RTTM files; distinct = (options, files)")
    rep.assumptions += ["the command line is driven in-process through pygamma_cmd() with sys.argv set (the console-script wrapper is not exercised)",
                        "numbers are compared at 1e-6 relative (float32 values through their text form)"]
    cases = l1(rep)
    by_key = {}
    for p in cases:
        o = p["opts"]
        by_key.setdefault((o["d"], o["out"], o["c"], o["k"]), []).append(p)
    chosen = []
    for key, lst in sorted(by_key.items(), key=lambda kv: json.dumps(kv[0])):
        pool = [p for p in lst if p["opts"]["p"] == "0.3" or rng.random() < 0.25] or lst
        chosen.append(rng.choice(pool))
    # a weight of 0 on one side: the other side (and gamma-cat / gamma-k, which use the categorical component whatever beta
    # is) must still follow the -d choice
    for d_, key_ in (("numerical", "b"), ("levenshtein", "b"), ("numerical", "a"), ("levenshtein", "a")):
        pool = [p for p in cases if p["opts"]["d"] == d_ and p["opts"][key_] == "0" and p["opts"]["c"] and p["opts"]["k"]
                and p["opts"]["p"] == "0.3" and p["opts"]["files"] == 1 and p["opts"]["a" if key_ == "b" else "b"] != "0"]
        if not pool:
            raise MachineryError("Cli.tla emitted no record with a zero weight")
        chosen.append(rng.choice(pool))
    extra = 0 if quick else 500
    chosen += [rng.choice(cases) for _ in range(extra)]
    if quick:
        chosen = [p for i, p in enumerate(chosen) if p["opts"]["d"] != "default" or i % 2 == 0]
    work = scratch() / "cli"
    work.mkdir(exist_ok=True)
    seen_cfg = []
    orig = pa.Continuum.compute_gamma

    def spy(self, dissimilarity=None, n_samples=30, precision_level=None, ground_truth_annotators=None, sampler=None, fast=False, soft=False):
        seen_cfg.append({"dissim": type(dissimilarity).__name__,
                         "cat": type(getattr(dissimilarity, "categorical_dissim", None)).__name__,
                         "alpha": float(getattr(dissimilarity, "alpha", float("nan"))), "beta": float(getattr(dissimilarity, "beta", float("nan"))),
                         "delta_empty": float(dissimilarity.delta_empty) if dissimilarity is not None else None,
                         "cat_delta_empty": float(getattr(getattr(dissimilarity, "categorical_dissim", None), "delta_empty", float("nan"))),
                         "pos_delta_empty": float(getattr(getattr(dissimilarity, "positional_dissim", None), "delta_empty", float("nan"))),
                         "cat_categories": (None if getattr(getattr(dissimilarity, "categorical_dissim", None), "categories", None) is None
                                            else list(dissimilarity.categorical_dissim.categories)),
                         "file_categories": list(self.categories),
                         "sampler": "StatisticalContinuumSampler" if sampler is None else type(sampler).__name__,
                         "precision": precision_level, "n_samples": n_samples, "fast": fast, "soft": soft,
                         "ground_truth": "all" if ground_truth_annotators is None else list(ground_truth_annotators)})
        return orig(self, dissimilarity=dissimilarity, n_samples=n_samples, precision_level=precision_level,
                    ground_truth_annotators=ground_truth_annotators, sampler=sampler, fast=fast, soft=soft)

    n = 0
    for idx, p in enumerate(chosen):
        o, eff = p["opts"], p["eff"]
        delim = eff["delimiter"]
        paths = write_inputs(rng, work, o["f"], delim, o["files"])
        outpath = work / ("report.csv" if o["out"] == "csv" else "report.json")
        argv = argv_for(o, paths, outpath)
        del seen_cfg[:]
        pa.Continuum.compute_gamma = spy
        buf = io.StringIO()
        err = None
        old_argv = sys.argv
        sys.argv = argv
        try:
            with contextlib.redirect_stdout(buf):
                cli_apps.pygamma_cmd()
        except SystemExit as ex:
            err = f"SystemExit({ex.code})"
        except Exception as ex:
            err = repr(ex)
        finally:
            sys.argv = old_argv
            pa.Continuum.compute_gamma = orig
        n += 1
        rep.case(key=json.dumps([o, idx]))
        detail = {"argv": argv[1:], "options": o, "effective_per_spec": eff}
        if err is not None:
            rep.violation("cli.raises", dict(detail, exception=err))
            continue
        # structural: what the tool really passed to the API
        for cfg in seen_cfg:
            want = {"dissim": eff["dissim"], "cat": eff["cat"], "alpha": float(eff["alpha"]), "beta": float(eff["beta"]),
                    "delta_empty": float(eff["delta_empty"]), "cat_delta_empty": float(eff["delta_empty"]),
                    "pos_delta_empty": float(eff["delta_empty"]), "sampler": eff["sampler"],
                    "precision": float(eff["precision"]), "n_samples": int(eff["n_samples"]), "fast": True, "soft": False, "ground_truth": "all"}
            diff = {k: (cfg[k], want[k]) for k in want if cfg[k] != want[k]}
            # the algorithm (fast / soft) and the ground truth the tool uses are not among the options the statement lists:
            # a departure from what the tool does today is a NOTE; the numbers are compared with the API in the SAME mode
            outside = {k: diff.pop(k) for k in ("fast", "soft", "ground_truth") if k in diff}
            if outside:
                rep.beyond("cli.mode." + "+".join(sorted(outside)), dict(detail, used_vs_spec=outside))
            # a category-aware dissimilarity must have been built from THIS file's categories
            if cfg["cat_categories"] is not None and cfg["cat_categories"] != cfg["file_categories"]:
                diff["cat_categories"] = (cfg["cat_categories"], cfg["file_categories"])
            if diff:
                rep.violation("cli.option_not_effective." + "+".join(sorted(diff)), dict(detail, used_vs_spec=diff))
                break
        if len(seen_cfg) != eff["entries"]:
            rep.violation("cli.entries", dict(detail, gamma_computations=len(seen_cfg)))
        # numeric: same numbers as the API, in this output mode
        try:
            got = parse_output(o, buf.getvalue(), outpath, paths, delim)
        except Exception as ex:
            rep.violation("cli.output_unreadable", dict(detail, exception=repr(ex), stdout=buf.getvalue()[:500]))
            continue
        mode_seen = seen_cfg[0] if seen_cfg else {"fast": True, "soft": False}
        want_nums = api_numbers(pa, eff, [str(x) for x in paths], fast=bool(mode_seen["fast"]), soft=bool(mode_seen["soft"]))
        if len(got) != len(want_nums) or not all(close(g, w) for g, w in zip(got, want_nums)):
            rep.violation("cli.numbers_differ", dict(detail, cli=got, api=want_nums))
        if idx < 2:
            rep.sample({"argv": argv[1:], "cli": got, "api": want_nums, "configuration_used": seen_cfg[:1]})
        for f in list(paths) + [outpath]:
            if os.path.exists(f):
                os.unlink(f)
    rep.traces += n
    rep.extra["cli_runs"] = n
    rep.extra["subtable_cells_covered"] = len(by_key)


def replay(path, rep):
    d = json.loads(open(path).read())
    print(json.dumps(d["detail"], indent=1, default=str)[:5000])
