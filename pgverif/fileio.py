"""C18 - file import and export are faithful.

L1  TLC: IO.tla / MC_IO - the CSV field codec over {letter, delimiter, quote, space, LF, CR} composed with the text layer:
    Decode(Encode(f)) = f for every field of length <= 4 (the library's pre-fix newline translation is the mutant that
    must fail); row-level and tier-level reading rules.
L2  spec -> code: TLC enumerates abstract CSV files (all sequences of <= MaxRows rows incl. zero-length and reversed
    segments x discard flag) and abstract tiered files (2 tiers x intervals with empty / non-empty marks x tier selection
    x label mode) with the expected continuum; the harness writes real files (csv text, TextGrid and ELAN through their
    libraries, RTTM lines), reads them through the library and compares projections.  Concretisation: labels and
    annotators range over EVERY string of length <= 3 over the codec alphabet, 3 delimiters, unicode strings, arbitrary
    float times.
L3  code -> spec: random labelled continua -> to_csv -> from_csv; TraceContinuum-style projections judged equal by TLC.
"""
import contextlib
import csv
import io
import itertools
import json
import os
import random

from . import contmodel, tlc
from .common import MachineryError, import_repo, scratch, seed

CFG = """SPECIFICATION Spec
CONSTANTS
 MaxLen = {maxlen}
 Variant = "{variant}"
 MaxRows = {maxrows}
 Mode = "{mode}"
 Emit = {emit}
CONSTRAINT EmitCase
INVARIANT CodecRoundTrip
INVARIANT DiscardNeverFails
INVARIANT NoZeroLengthUnit
INVARIANT EmptySelectionIsEmpty
"""
ALPHA = {"L": "a", "D": ",", "Q": '"', "S": " ", "N": "\n", "R": "\r"}


def l1(rep, tier):
    cases = {"csv": [], "tiers": []}
    for mode in ("codec", "csv", "tiers"):
        res = tlc.run("MC_IO", CFG.format(maxlen=4 if tier == "quick" else 5, variant="none", maxrows=2 if tier == "quick" else 3,
                                          mode=mode, emit="TRUE"), label=f"MC_IO {mode}", workers=16, timeout=1800, heap="8g")
        if res.violated or res.errors:
            raise MachineryError(f"MC_IO {mode}: {res.violated} {res.errors}\n{res.trace_text[:1500]}")
        rep.add_tlc(res)
        for p in res.printed:
            if p.get("kind") in cases:
                cases[p["kind"]].append(p)
    r = tlc.run("MC_IO", CFG.format(maxlen=3, variant="translate_newlines", maxrows=1, mode="codec", emit="FALSE"),
                label="mutant translate_newlines", workers=8, timeout=600, coverage=False)
    if "CodecRoundTrip" not in r.violated and not any("CodecRoundTrip" in e for e in r.errors):
        raise MachineryError(f"mutant translate_newlines not rejected: {r.violated} {r.errors}")
    rep.extra.setdefault("mutants_killed", []).append("IO:translate_newlines")
    return cases


def proj_units(c):
    return sorted((a, float(u.segment.start), float(u.segment.end), u.annotation) for a, u in c)


def field_strings(maxlen, delim):
    syms = dict(ALPHA, D=delim)
    out = []
    for k in range(1, maxlen + 1):
        for t in itertools.product("LDQSNR", repeat=k):
            out.append("".join(syms[x] for x in t))
    return out


def csv_cases(rep, pa, cases, rng, tier):
    work = scratch() / "io"
    work.mkdir(exist_ok=True)
    delims = [",", ";", "\t"]
    times_maps = [lambda t: float(t), lambda t: 0.1 + t * 1.3000000000000003, lambda t: -7.25 + 1e-3 * t]
    n = 0
    # (1) every abstract file x a few concretisations
    names = [("ann a", "b"), ('x"y', "x,y"), ("é", "é")]
    for ci, p in enumerate(cases):
        rows = p["rows"]
        for k in range(1 if tier == "quick" else 3):
            delim = delims[(ci + k) % 3]
            tm = times_maps[(ci + k) % 3]
            amap = dict(zip((1, 2), names[(ci + k) % 3]))
            lmap = dict(zip((1, 2), rng.choice([("lab", "lab b"), ("1", "10"), ('q"', delim + "z"), ("", " ")])))
            path = work / f"c{ci}_{k}.csv"
            with open(path, "w", newline="", encoding="utf-8") as f:
                w = csv.writer(f, delimiter=delim)
                for a, l, s, e in rows:
                    w.writerow([amap[a], lmap[l], repr(tm(s)), repr(tm(e))])
            got_out, got, got_anns = "ok", None, None
            try:
                with contextlib.redirect_stdout(io.StringIO()):
                    c = pa.Continuum.from_csv(str(path), discard_invalid_rows=bool(p["discard"]), delimiter=delim)
                got = proj_units(c)
                got_anns = list(c.annotators)
            except Exception:      # rejected, whatever the exception class
                got_out = "rejected"
            os.unlink(path)
            want = sorted((amap[u[0]], tm(u[1]), tm(u[2]), lmap[u[3]]) for u in p["units"])
            n += 1
            rep.case(key=json.dumps(["csv", rows, p["discard"], k]))
            if got_out != p["outcome"] or (got_out == "ok" and (got != want or got_anns != sorted(amap[a] for a in p["annotators"]))):
                rep.violation("io.csv_read", {"rows": rows, "discard": p["discard"], "delimiter": delim, "spec_outcome": p["outcome"],
                                              "code_outcome": got_out, "spec_units": want, "code_units": got, "code_annotators": got_anns,
                                              "annotator_names": amap, "label_names": lmap})
    # (2) CSV round trip with every string over the codec alphabet as label and as annotator
    from pyannote.core import Segment
    for delim in delims[: (1 if tier == "quick" else 3)]:
        strings = field_strings(3, delim) + ["Ünï cödé", "日本語", "tab\there", "'single'", "a" * 300, " lead", "trail ", "\r\n", "x\r\ny"]
        for chunk in range(0, len(strings), 40):
            part = strings[chunk:chunk + 40]
            c = pa.Continuum()
            for i, s in enumerate(part):
                c.add(s if i % 2 else "plain", Segment(i * 1.5, i * 1.5 + 0.1 + i / 7), s)
                c.add("ann" + s, Segment(0.25, 3.0000000000000004), "L" + s)
            path = work / "rt.csv"
            c.to_csv(str(path), delimiter=delim)
            try:
                back = pa.Continuum.from_csv(str(path), delimiter=delim)
                ok = (back == c) and list(back.categories) == list(c.categories) and proj_units(back) == proj_units(c)
                detail = None if ok else {"first_difference": next(((x, y) for x, y in zip(proj_units(c), proj_units(back)) if x != y), "length")}
            except Exception as ex:
                ok, detail = False, {"exception": repr(ex)}
            n += len(part)
            for s in part:
                rep.case(key=json.dumps(["roundtrip", delim, s]))
            if not ok:
                rep.violation("io.csv_roundtrip", {"delimiter": delim, "strings": part[:10], "detail": detail})
        # files that hold ONE kind of awkward text only, next to plain fields (what a reader guesses about a file - its quoting,
        # its dialect - must not depend on which other fields happen to be in it)
        singles = [["'a'", "'b'", "'c d'"], ["'tis", "'twas"], ["it's", "o'clock"], ["''", "'"], ['"q"', '"'], ["#c", "# d"], [" ", "  "],
                   ["a'b'c", "x'y"], ["é", "ü"], ["a;b", "c|d", "e\tf".replace("\\t", "\t")], ["1", "2.5", "-3"], ["None", "nan", "NULL"], ["a\\b", "\\"]]
        for group in singles:
            c = pa.Continuum()
            for i, t in enumerate(group):
                c.add(t, Segment(1.0 + i, 2.5 + i), t)
                c.add("plain", Segment(0.5 + i, 0.75 + i), "lab" + str(i))
                c.add(t, Segment(4.0 + i, 4.5 + i), "plain")
            path = work / "rt1.csv"
            c.to_csv(str(path), delimiter=delim)
            try:
                back = pa.Continuum.from_csv(str(path), delimiter=delim)
                ok = (back == c) and list(back.categories) == list(c.categories) and proj_units(back) == proj_units(c)
                detail = None if ok else {"first_difference": next(((x, y) for x, y in zip(proj_units(c), proj_units(back)) if x != y), "length")}
            except Exception as ex:
                ok, detail = False, {"exception": repr(ex)}
            n += len(group)
            for t in group:
                rep.case(key=json.dumps(["roundtrip-single", delim, t]))
            if not ok:
                rep.violation("io.csv_roundtrip", {"delimiter": delim, "strings": group, "file_holds": "these strings and plain fields only", "detail": detail})
    return n


def tier_cases(rep, pa, cases, rng, tier):
    import textgrid
    from pympi import Eaf
    work = scratch() / "io"
    work.mkdir(exist_ok=True)
    n = 0
    tier_names = {1: "tier one", 2: "Zweite"}
    marks = {1: "speech", 2: "laugh ter"}
    for ci, p in enumerate(cases):
        sel = None if p["selall"] else [tier_names[t] for t in p["sel"]]
        for fmt in ("textgrid", "elan"):
            scale = 1.25 if fmt == "textgrid" else 1000       # ELAN: integer milliseconds
            path = work / (f"t{ci}.TextGrid" if fmt == "textgrid" else f"t{ci}.eaf")
            if fmt == "textgrid":
                tg = textgrid.TextGrid(maxTime=2 * scale)
                for t, ivs in enumerate(p["file"], start=1):
                    it = textgrid.IntervalTier(name=tier_names[t], maxTime=2 * scale)
                    for s, e, m in ivs:
                        it.add(s * scale, e * scale, "" if m == 0 else marks[m])
                    tg.append(it)
                tg.write(str(path))
            else:
                eaf = Eaf()
                eaf.remove_tier("default")
                for t, ivs in enumerate(p["file"], start=1):
                    eaf.add_tier(tier_names[t])
                    for s, e, m in ivs:
                        if m != 0:          # an ELAN annotation always has a value here (empty values: named deviation)
                            eaf.add_annotation(tier_names[t], int(s * scale), int(e * scale), marks[m])
                eaf.to_file(str(path))
            c = pa.Continuum()
            from pyannote.core import Segment as _Seg
            pre = []
            if ci % 2 == 0:
                # the annotator already holds units (added by hand, or from an earlier file): reading a file adds to them
                c.add("Ann", _Seg(5000.5, 5001.75), "already there")
                c.add("Other", _Seg(1.0, 2.0), "other annotator")
                pre = [("Ann", 5000.5, 5001.75, "already there"), ("Other", 1.0, 2.0, "other annotator")]
            try:
                if fmt == "textgrid":
                    c.add_textgrid("Ann", str(path), selected_tiers=sel, use_tier_as_annotation=bool(p["useTier"]))
                else:
                    c.add_elan("Ann", str(path), selected_tiers=sel, use_tier_as_annotation=bool(p["useTier"]))
                got = proj_units(c)
            except Exception as ex:
                got = repr(ex)
            for f in (path, str(path) + ".pfsx"):
                if os.path.exists(f):
                    os.unlink(f)
            want = sorted([("Ann", float(u[0] * scale), float(u[1] * scale), tier_names[u[2][1]] if u[2][0] == "tier" else marks[u[2][1]])
                           for u in p["units"]] + pre)
            n += 1
            rep.case(key=json.dumps([fmt, p["file"], p["selall"], p["sel"], p["useTier"]]))
            if got != want:
                rep.violation(f"io.{fmt}", {"file": p["file"], "selected_tiers": sel, "use_tier_as_annotation": p["useTier"],
                                            "spec_units": want, "code_units": got})
    return n


def rttm_cases(rep, pa, rng, count):
    work = scratch() / "io"
    work.mkdir(exist_ok=True)
    n = 0
    for i in range(count):
        rows = []
        for _ in range(rng.randint(1, 8)):
            uri = rng.choice(["fileA", "file_b", "c3"])
            start = round(rng.uniform(0, 100), rng.choice([0, 1, 3]))
            dur = round(rng.uniform(0.05, 20), rng.choice([1, 2, 3]))
            rows.append((uri, start, dur, rng.choice(["spk1", "spk_2", "S"])))
        path = work / f"r{i}.rttm"
        with open(path, "w") as f:
            for uri, start, dur, spk in rows:
                f.write(f"SPEAKER {uri} 1 {start} {dur} <NA> <NA> {spk} <NA> <NA>\n")
        try:
            c = pa.Continuum.from_rttm(str(path))
            got = proj_units(c)
        except Exception as ex:
            got = repr(ex)
        os.unlink(path)
        want = sorted(set((uri, float(start), float(start) + float(dur), spk) for uri, start, dur, spk in rows))
        n += 1
        rep.case(key=json.dumps(["rttm", rows]))
        ok = isinstance(got, list) and len(got) == len(want) and all(
            g[0] == w[0] and g[3] == w[3] and abs(g[1] - w[1]) < 1e-9 and abs(g[2] - w[2]) < 1e-9 for g, w in zip(got, want))
        if not ok:
            rep.violation("io.rttm", {"rows": rows, "spec_units": want, "code_units": got})
    return n


def l3_roundtrip(rep, pa, rng, count):
    """Random labelled continua through to_csv / from_csv, judged by TLC (TraceContinuum projections must coincide)."""
    from pyannote.core import Segment
    work = scratch() / "io"
    work.mkdir(exist_ok=True)
    traces = []
    for i in range(count):
        c = pa.Continuum()
        for _ in range(rng.randint(1, 12)):
            a = rng.choice(["a", "b c", 'q"', "d,e", "é"])
            s = rng.uniform(-50, 500) if rng.random() < 0.5 else float(rng.randint(0, 40))
            lab = rng.choice(["x", "y z", "", ",", '"', "l\n2", "ü", "0", "None"])
            c.add(a, Segment(s, s + rng.choice([0.1, 1 / 3, 2.5, 1e-3, 123.456])), lab)
        delim = rng.choice([",", ";", "|", "\t"])
        path = work / f"l3_{i}.csv"
        c.to_csv(str(path), delimiter=delim)
        back = pa.Continuum.from_csv(str(path), delimiter=delim)
        os.unlink(path)
        # as a two-object history: object 1 = original, object 2 = what came back; equality observed by the library too
        objs = {1: c}
        ev1 = {"op": "derive", "args": [1], "out": "ok"}
        ev1["obs"], ev1["eq"] = contmodel.observe(objs)
        objs[2] = back
        ev2 = {"op": "derive", "args": [2], "out": "ok"}
        ev2["obs"], ev2["eq"] = contmodel.observe(objs)
        traces.append([ev1, ev2])
        rep.case(key=json.dumps(["l3", ev1["obs"][0][1]["units"], delim]))
    res, verdicts = contmodel.validate(traces, 2, label="TraceContinuum roundtrip", workers=8)
    rep.add_tlc(res)
    rep.traces += len(traces)
    for t, l, name in verdicts:
        rep.violation("io.l3." + name, {"clause": name, "original": traces[t][0]["obs"][0][1], "read_back": traces[t][1]["obs"][-1][1]})
    # the round trip itself: == must hold between object 1 and 2 and all projected fields must coincide
    for tr in traces:
        o1, o2 = tr[1]["obs"][0][1], tr[1]["obs"][1][1]
        eq12 = [e for e in tr[1]["eq"] if e[0] == 1 and e[1] == 2][0]
        if eq12[2] != 1 or o1["units"] != o2["units"] or o1["cats"] != o2["cats"] or o1["ann"] != o2["ann"]:
            rep.violation("io.csv_roundtrip", {"original": o1, "read_back": o2, "library_eq": eq12})


def run(tier, rep):
    pa = import_repo()
    rng = random.Random(seed() * 1000003 + 18)
    rep.rule = ("abstract files enumerated by TLC x concretisations (delimiters, odd strings, float time maps); CSV round trips over every "
                "string of length <= 3 over the codec alphabet; generated RTTM files; distinct = (file, options, concretisation)")
    rep.assumptions += ["csv, pandas.read_csv (RTTM), textgrid and pympi are trusted as writers / parsers of their own formats",
                        "tokens pandas maps to NaN, ELAN annotations with empty values and times beyond what the third-party writers preserve are not generated"]
    cases = l1(rep, tier)
    n = csv_cases(rep, pa, cases["csv"], rng, tier)
    tiers = cases["tiers"] if tier != "quick" else [p for i, p in enumerate(cases["tiers"]) if i % 3 == 0 or (not p["selall"] and not p["sel"])]
    n += tier_cases(rep, pa, tiers, rng, tier)
    n += rttm_cases(rep, pa, rng, 30 if tier == "quick" else 400)
    rep.traces += n
    l3_roundtrip(rep, pa, rng, 60 if tier == "quick" else 1500)
    rep.sample({"csv_case": cases["csv"][len(cases["csv"]) // 2], "tier_case": cases["tiers"][len(cases["tiers"]) // 2]})
    rep.extra["abstract_files"] = {k: len(v) for k, v in cases.items()}


def replay(path, rep):
    d = json.loads(open(path).read())
    print(json.dumps(d["detail"], indent=1, default=str)[:5000])
