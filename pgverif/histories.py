"""Random histories of container operations executed on REAL Continuum objects (L3 recording)."""
import random

from .contmodel import observe

ANNS = ["a", "b", "B", "ab", "Zed"]
LABELS = [None, None, "x", "y", "zz", "Z", "", "x y", "é"]
GRID = [0.0, 0.25, 0.5, 1.0, 1.5, 2.0, 3.0, 4.0, 7.5, 12.0, 16.0, 18.0, 23.0, -1.0, -2.5]


def rnd_time(rng):
    r = rng.random()
    if r < 0.7:
        return rng.choice(GRID)
    return round(rng.uniform(-5, 30), rng.choice([1, 3, 9]))


def rnd_segment(rng):
    s = rnd_time(rng)
    r = rng.random()
    if r < 0.12:
        return s, s                       # zero length: must be rejected
    if r < 0.16:
        return s, s - rng.choice([0.5, 1.0, 2.25])   # reversed (empty) segment: rejected
    if r < 0.7:
        return s, s + rng.choice([0.25, 0.5, 1.0, 2.0, 2.75, 11.0])
    e = rnd_time(rng)
    if abs(e - s) < 1e-3:
        e = s + 1.0
    return (s, e) if s < e else (e, s)


def record_history(pa, rng, length, max_obj=4, ops_weights=None):
    """Run `length` random calls on real objects; return the list of raw events."""
    from pyannote.core import Segment
    Continuum, Unit = pa.Continuum, pa.continuum.Unit
    objs = {}
    events = []
    w = {"new": 2, "add": 14, "add_annotator": 2, "remove": 5, "copy": 2, "copy_flush": 1, "merge_in_place": 2,
         "merge_new": 1, "plus": 1, "reset_bounds": 2, "drop": 1, "getitem_mutate": 1, "add_timeline": 1, "add_annotation": 1,
         "transplant": 2}
    if ops_weights:
        w.update(ops_weights)
    queue = []          # planned ordinary events (a "transplant" is copy + remove + add of the same unit under another annotator)
    for _ in range(length):
        live = sorted(objs)
        free = [i for i in range(1, max_obj + 1) if i not in objs]
        cand = []
        for op, k in w.items():
            if op == "new" and not free:
                continue
            if op in ("copy", "copy_flush") and (not live or not free):
                continue
            if op in ("merge_new", "plus") and (not live or not free):
                continue
            if op not in ("new",) and not live:
                continue
            if op == "drop" and len(live) < 2:
                continue
            if op == "transplant" and (not free or not any(objs[o].num_units and len(objs[o].annotators) > 1 for o in live)):
                continue
            cand += [op] * k
        op = rng.choice(cand)
        F = {}
        if queue:
            F = queue.pop(0)
            op = F["op"]
        elif op == "transplant":
            # same annotators, same units in the same flattened order, another owner: two continua that must compare unequal
            o = rng.choice([o for o in live if objs[o].num_units and len(objs[o].annotators) > 1])
            a, u = rng.choice([(a, u) for a, u in objs[o]])
            b = rng.choice([x for x in objs[o].annotators if x != a])
            F, op = {"op": "copy", "o": o, "o2": free[0]}, "copy"
            queue += [{"op": "remove", "o": free[0], "a": a, "u": u},
                      {"op": "add", "o": free[0], "a": b, "s": float(u.segment.start), "t": float(u.segment.end), "l": u.annotation}]
        if F and F["o"] not in objs:
            queue, F = [], {}
            op = "add" if live else "new"
            if op == "new" and not free:
                continue
        e = {"op": op, "args": [], "out": "ok"}
        try:
            if op == "new":
                o = free[0]
                objs[o] = Continuum()
                e["args"] = [o]
            elif op == "add":
                o = rng.choice(live); a = rng.choice(ANNS); s, t = rnd_segment(rng); l = rng.choice(LABELS)
                if F:
                    o, a, s, t, l = F["o"], F["a"], F["s"], F["t"], F["l"]
                e["args"] = [o, a, s, t, l]
                objs[o].add(a, Segment(s, t), l)
            elif op == "add_annotator":
                o = rng.choice(live); a = rng.choice(ANNS)
                e["args"] = [o, a]
                objs[o].add_annotator(a)
            elif op in ("add_timeline", "add_annotation"):
                o = rng.choice(live); a = rng.choice(ANNS)
                items = []
                for _ in range(rng.randint(0, 3)):
                    s, t = rnd_segment(rng)
                    if t - s < 1e-3:
                        t = s + 1.25
                    items.append([s, t, None if op == "add_timeline" else rng.choice([x for x in LABELS if x is not None])])
                e["args"] = [o, a]
                e["items"] = [list(x) for x in {tuple(i) for i in items}]
                add_many(objs[o], op, a, e["items"])
            elif op == "remove":
                o = rng.choice(live)
                pool = [(a, u) for a, u in objs[o]]
                if pool and rng.random() < 0.75:
                    a, u = rng.choice(pool)
                    if rng.random() < 0.1:      # same segment, another label: usually absent
                        u = Unit(u.segment, rng.choice(LABELS))
                    if rng.random() < 0.1:
                        a = rng.choice(ANNS)
                else:
                    s, t = rnd_segment(rng)
                    if t <= s:
                        t = s + 1.0
                    a, u = rng.choice(ANNS), Unit(Segment(s, t), rng.choice(LABELS))
                if F:
                    o, a, u = F["o"], F["a"], F["u"]
                e["args"] = [o, a, float(u.segment.start), float(u.segment.end), u.annotation]
                objs[o].remove(a, u)
            elif op == "copy":
                o = rng.choice(live); o2 = free[0]
                if F:
                    o, o2 = F["o"], F["o2"]
                e["args"] = [o, o2]
                objs[o2] = objs[o].copy()
            elif op == "copy_flush":
                o = rng.choice(live); o2 = free[0]
                e["args"] = [o, o2]
                objs[o2] = objs[o].copy_flush()
            elif op == "merge_in_place":
                o = rng.choice(live); o2 = rng.choice(live)
                e["args"] = [o, o2]
                r = objs[o].merge(objs[o2], in_place=True)
                assert r is None
            elif op == "merge_new":
                o = rng.choice(live); o2 = rng.choice(live); o3 = free[0]
                e["args"] = [o, o2, o3]
                objs[o3] = objs[o].merge(objs[o2], in_place=False)
            elif op == "plus":
                o = rng.choice(live); o2 = rng.choice(live); o3 = free[0]
                e["args"] = [o, o2, o3]
                objs[o3] = objs[o] + objs[o2]
            elif op == "reset_bounds":
                o = rng.choice(live)
                e["args"] = [o]
                objs[o].reset_bounds()
            elif op == "drop":
                o = rng.choice(live)
                e["args"] = [o]
                del objs[o]
            elif op == "getitem_mutate":
                # the views handed out are independent copies: emptying one changes nothing
                o = rng.choice(live)
                e["op"], e["kind"] = "compute", "getitem_mutate"
                for a in list(objs[o].annotators):
                    view = objs[o][a]
                    view.clear()
                    view.add(Unit(Segment(100.0, 101.0), "ghost"))
        except Exception:          # any exception class: the call was rejected
            e["out"] = "rejected"
        e["obs"], e["eq"] = observe(objs)
        events.append(e)
    return events


def add_many(c, op, a, items):
    """add_timeline / add_annotation through real pyannote objects."""
    from pyannote.core import Annotation, Segment, Timeline
    if op == "add_timeline":
        c.add_timeline(a, Timeline([Segment(s, t) for s, t, _ in items]))
    else:
        ann = Annotation()
        for k, (s, t, lab) in enumerate(items):
            ann[Segment(s, t), k] = lab
        c.add_annotation(a, ann)


def apply_event(pa, objs, e):
    """Re-execute one raw event on the real objects in `objs` (replay of stored traces)."""
    from pyannote.core import Segment
    Unit = pa.continuum.Unit
    op, a = e["op"], e["args"]
    out = "ok"
    try:
        if op == "new":
            objs[a[0]] = pa.Continuum()
        elif op == "add":
            objs[a[0]].add(a[1], Segment(a[2], a[3]), a[4])
        elif op == "add_annotator":
            objs[a[0]].add_annotator(a[1])
        elif op in ("add_timeline", "add_annotation"):
            add_many(objs[a[0]], op, a[1], e["items"])
        elif op == "remove":
            objs[a[0]].remove(a[1], Unit(Segment(a[2], a[3]), a[4]))
        elif op == "copy":
            objs[a[1]] = objs[a[0]].copy()
        elif op == "copy_flush":
            objs[a[1]] = objs[a[0]].copy_flush()
        elif op == "merge_in_place":
            objs[a[0]].merge(objs[a[1]], in_place=True)
        elif op == "merge_new":
            objs[a[2]] = objs[a[0]].merge(objs[a[1]], in_place=False)
        elif op == "plus":
            objs[a[2]] = objs[a[0]] + objs[a[1]]
        elif op == "reset_bounds":
            objs[a[0]].reset_bounds()
        elif op == "drop":
            del objs[a[0]]
    except Exception:
        out = "rejected"
    return out
