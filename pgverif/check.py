"""Entry point: python -m pgverif.check <property> [--tier quick|thorough] [--replay path]"""
import argparse
import importlib
import os
import sys
import traceback

from .common import MachineryError, Report

MODULES = {
    "C13": "c13", "C14": "c14",
    "C01": "align", "C02": "align", "C03": "align", "C07": "align", "C08": "align", "C11": "align",
    "C10": "fast", "C16": "shuffle", "C15": "statsampler", "C05": "gammarun", "C06": "gammarun",
    "C04": "dissim", "C09": "invariance", "C12": "gammacat", "C17": "checkvalid", "C19": "cst",
    "C18": "fileio", "C20": "cli",
}


def main():
    ap = argparse.ArgumentParser()
    ap.add_argument("property")
    ap.add_argument("--tier", default=os.environ.get("VERIF_TIER", "quick"), choices=["quick", "thorough"])
    ap.add_argument("--replay", default=None)
    a = ap.parse_args()
    pid = a.property.upper()
    if pid not in MODULES:
        print(f"unknown property {pid}")
        return 2
    try:
        mod = importlib.import_module(f"pgverif.{MODULES[pid]}")
    except Exception:
        traceback.print_exc()
        print(f"MACHINERY-FAILURE property={pid}: check module cannot be loaded")
        return 2
    rep = Report(pid, a.tier)
    # overall watchdog: a library call that never returns inside a worker thread (e.g. a fast alignment that stalls inside
    # compute_gamma) must not hang the check for ever; C10 is the check that decides termination itself
    limit = float(os.environ.get("PGVERIF_TIMEOUT", 1800 if a.tier == "quick" else 6 * 3600))

    def _expired():
        import faulthandler
        print(f"MACHINERY-FAILURE property={pid}: the check did not finish within {limit:.0f} s (stacks follow)", flush=True)
        faulthandler.dump_traceback(file=sys.stdout, all_threads=True)
        sys.stdout.flush()
        os._exit(2)
    import threading
    wd = threading.Timer(limit, _expired)
    wd.daemon = True
    wd.start()
    try:
        if a.replay:
            mod.replay(a.replay, rep)
            return 0
        if hasattr(mod, "run_property"):
            mod.run_property(pid, a.tier, rep)
        else:
            mod.run(a.tier, rep)
    except MachineryError as ex:
        print(f"MACHINERY-FAILURE property={pid}: {ex}")
        return 2
    except Exception:
        traceback.print_exc()
        print(f"MACHINERY-FAILURE property={pid}: unexpected exception in the harness")
        return 2
    return rep.finish()


if __name__ == "__main__":
    sys.stdout.reconfigure(line_buffering=True)
    sys.exit(main())
