"""Entry point: python -m pgverif.check <property> [--tier quick|thorough] [--replay path]"""
import argparse
import importlib
import os
import sys
import traceback

from .common import MachineryError, Report

MODULES = {
    "C13": "c13", "C14": "c14",
    "C01": "align", "C02": "align", "C03": "align", "C07": "align", "C08": "align", "C11": "align",
    "C10": "fast", "C16": "shuffle", "C15": "statsampler", "C05": "gammarun", "C06": "gammarun",
    "C04": "dissim", "C09": "invariance", "C12": "gammacat", "C17": "checkvalid", "C19": "cst",
    "C18": "fileio", "C20": "cli",
}


CRASH_SIGNALS = {"SIGABRT", "SIGSEGV", "SIGBUS", "SIGFPE", "SIGILL"}


def supervise(argv):
    """Run the check in a child process.  The library's compiled kernels (numba) can corrupt memory when a change makes them
    index out of bounds: the interpreter then dies on a signal and could report nothing.  A child killed by a memory-error
    signal while exercising the library is reported as a violation (the computation did not deliver its result); any other
    abnormal end is a machinery failure."""
    import json
    import signal
    import subprocess
    import time
    from .common import EVIDENCE, REPLAYS, seed
    t0 = time.time()
    import tempfile
    crumb = os.path.join("/var/tmp" if os.access("/var/tmp", os.W_OK) else tempfile.gettempdir(), f"pgverif-crumb-{os.getpid()}")
    env = dict(os.environ, PGVERIF_CHILD="1", PGVERIF_BREADCRUMB=crumb)
    def attempt():
        p = subprocess.Popen([sys.executable, "-W", "ignore", "-m", "pgverif.check"] + argv, env=env)
        try:
            rc_ = p.wait()
        except KeyboardInterrupt:
            p.kill()
            raise
        last_ = ""
        try:
            last_ = open(crumb).read()
            os.unlink(crumb)
        except OSError:
            pass
        return rc_, last_

    def signame(rc_):
        try:
            return signal.Signals(-rc_).name
        except ValueError:
            return str(-rc_)
    rc, last = attempt()
    if rc >= 0:
        return rc
    first = (signame(rc), last)
    if first[0] in CRASH_SIGNALS and "--replay" not in argv:
        # a crash that does not come back on an identical second run (same seed, same inputs) is not evidence against the
        # library: the second run's verdict stands, the first attempt is mentioned
        print(f"NOTE: the check process died on {first[0]} (last progress marker: {first[1][:200]}); running it once more", flush=True)
        rc, last = attempt()
        if rc >= 0:
            print(f"NOTE: the crash of the first attempt ({first[0]}) did not come back")
            return rc
    name = signame(rc)
    pid = next((a.upper() for a in argv if not a.startswith("-")), "?")
    tier = argv[argv.index("--tier") + 1] if "--tier" in argv else os.environ.get("VERIF_TIER", "quick")
    if name not in CRASH_SIGNALS or "--replay" in argv:
        print(f"MACHINERY-FAILURE property={pid}: the check process ended on signal {name}")
        return 2
    REPLAYS.mkdir(exist_ok=True)
    path = REPLAYS / f"{pid}-crash.json"
    detail = {"signal": name, "tier": tier, "seed": seed(), "last_progress_marker": last,
              "what": "the interpreter running the library was killed by a memory-error signal while the check exercised it "
                      "(compiled kernels indexing out of bounds); re-run the check to reproduce"}
    path.write_text(json.dumps({"property": pid, "key": "process.crashed", "detail": detail}, indent=1) + "\n")
    EVIDENCE.mkdir(exist_ok=True)
    (EVIDENCE / f"{pid}.json").write_text(json.dumps({
        "property_id": pid, "tier": tier, "seed": seed(), "level": "model_checking",
        "coverage": {"states": 0, "transitions": 0, "traces_validated_against_impl": 0, "evaluations": 0, "distinct_nontrivial": 0,
                     "rule": "the run was cut short: the library crashed the interpreter", "samples": [detail]},
        "assumptions": [], "wall_s": round(time.time() - t0, 2), "violations": 1}, indent=1) + "\n")
    print(f"VIOLATION property={pid} replay={path}  # process.crashed: {json.dumps(detail)[:300]}")
    print(f"{pid}: 1 violation(s)")
    return 1


def main():
    if os.environ.get("PGVERIF_CHILD") != "1":
        return supervise(sys.argv[1:])
    try:        # the child must not outlive its supervisor (e.g. when an outer timeout kills it)
        import ctypes
        import signal
        ctypes.CDLL("libc.so.6", use_errno=True).prctl(1, signal.SIGKILL)      # PR_SET_PDEATHSIG
    except Exception:
        pass
    ap = argparse.ArgumentParser()
    ap.add_argument("property")
    ap.add_argument("--tier", default=os.environ.get("VERIF_TIER", "quick"), choices=["quick", "thorough"])
    ap.add_argument("--replay", default=None)
    a = ap.parse_args()
    pid = a.property.upper()
    if pid not in MODULES:
        print(f"unknown property {pid}")
        return 2
    try:
        mod = importlib.import_module(f"pgverif.{MODULES[pid]}")
    except Exception:
        traceback.print_exc()
        print(f"MACHINERY-FAILURE property={pid}: check module cannot be loaded")
        return 2
    rep = Report(pid, a.tier)
    # overall watchdog: a library call that never returns inside a worker thread (e.g. a fast alignment that stalls inside
    # compute_gamma) must not hang the check for ever; C10 is the check that decides termination itself
    limit = float(os.environ.get("PGVERIF_TIMEOUT", 1800 if a.tier == "quick" else 6 * 3600))

    def _expired():
        import faulthandler
        print(f"MACHINERY-FAILURE property={pid}: the check did not finish within {limit:.0f} s (stacks follow)", flush=True)
        faulthandler.dump_traceback(file=sys.stdout, all_threads=True)
        sys.stdout.flush()
        os._exit(2)
    import threading
    wd = threading.Timer(limit, _expired)
    wd.daemon = True
    wd.start()
    try:
        if a.replay:
            mod.replay(a.replay, rep)
            return 0
        if hasattr(mod, "run_property"):
            mod.run_property(pid, a.tier, rep)
        else:
            mod.run(a.tier, rep)
    except MachineryError as ex:
        print(f"MACHINERY-FAILURE property={pid}: {ex}")
        return 2
    except Exception:
        traceback.print_exc()
        print(f"MACHINERY-FAILURE property={pid}: unexpected exception in the harness")
        return 2
    return rep.finish()


if __name__ == "__main__":
    sys.stdout.reconfigure(line_buffering=True)
    sys.exit(main())
