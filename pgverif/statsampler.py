"""C15 - the statistical sampler emits valid continua with the reference's statistics.

L1  TLC: MC_StatSampler - every sequence of draws over a small domain (zero, negative, large) through the count / gap /
    duration (redraw loop) / category machine: non-empty, exact annotators, positive durations, only known categories;
    mutants `no_guard` (max(1,.) removed) and `no_abs` must be rejected.
L3  code -> spec: probes on np.random.normal / np.random.choice record every draw (arguments and result) of real
    sample_from_continuum calls; TraceStatSampler.tla feeds them to the same actions, compares the continuum built with
    the one returned, and checks each draw's law parameters (supplied, or exact mean / variance of the integer-grid
    reference computed by TLC).
That numpy's generators follow the laws they are asked for is assumed, not checked.
"""
import json
import random

import numpy as np

from . import tlc
from .common import MachineryError, import_repo, scratch, seed

K = 1000
MC_CFG = """SPECIFICATION Spec
CONSTANTS
 NAnn = {nann}
 K = 1
 PrecisionN = 1
 Cats = {{1, 2}}
 Variant = "{variant}"
 Dom <- {dom}
 MaxUnits = {maxu}
CONSTRAINT Bound
INVARIANT NonEmpty
INVARIANT ExactAnnotators
INVARIANT PositiveDurations
INVARIANT OnlyCategories
INVARIANT FirstAnnotatorNonEmpty
"""
TRACE_CFG = """SPECIFICATION TSpec
CONSTANTS
 NAnn = {nann}
 K = 1000
 PrecisionN = 1000
 Cats = {{}}
 Variant = "none"
CONSTRAINT Verdicts
"""


def l1(rep, tier):
    runs = [dict(nann=2, dom="SmallDom", maxu=3)]
    if tier == "thorough":
        runs += [dict(nann=3, dom="SmallDom", maxu=3), dict(nann=2, dom="WideDom", maxu=3)]
    for u in runs:
        res = tlc.run("MC_StatSampler", MC_CFG.format(variant="none", **u), label=f"MC_StatSampler {u}", workers=16, timeout=1800)
        if res.violated:
            raise MachineryError(f"MC_StatSampler: spec violates {res.violated}\n{res.trace_text[:2000]}")
        tlc.require(res, actions=["DrawCount", "DrawGap", "DrawDuration", "DrawCategory"])
        rep.add_tlc(res)
    for variant, expect in (("no_guard", {"FirstAnnotatorNonEmpty", "NonEmpty"}), ("no_abs", {"PositiveDurations"})):
        r = tlc.run("MC_StatSampler", MC_CFG.format(variant=variant, nann=2, dom="SmallDom", maxu=2), label=f"mutant {variant}",
                    workers=8, timeout=600, coverage=False)
        if not (expect & set(r.violated)):
            raise MachineryError(f"mutant {variant} not rejected: {r.violated} {r.errors}")
        rep.extra.setdefault("mutants_killed", []).append(f"StatSampler:{variant}")


class RngProbe:
    def __init__(self):
        self.log = None
        self.o_normal, self.o_choice = np.random.normal, np.random.choice

    def __enter__(self):
        probe = self

        def normal(loc=0.0, scale=1.0, size=None):
            v = probe.o_normal(loc, scale, size)
            if probe.log is not None and size is None:
                probe.log.append(("normal", float(loc), float(scale), float(v)))
            return v

        def choice(a, size=None, replace=True, p=None):
            v = probe.o_choice(a, size, replace, p)
            if probe.log is not None:
                probe.log.append(("choice", [str(x) for x in np.array(a).tolist()], None if p is None else [float(x) for x in p], str(v)))
            return v
        np.random.normal, np.random.choice = normal, choice
        return self

    def __exit__(self, *a):
        np.random.normal, np.random.choice = self.o_normal, self.o_choice


def fx(x, k=K):
    return int(round(float(x) * k))


LABELS = ["x", "y", "zz", "10"]


def grid_reference(pa, rng):
    from pyannote.core import Segment
    c = pa.Continuum()
    n_ann = rng.randint(2, 5)
    for a in range(n_ann):
        name = f"g{a}"
        c.add_annotator(name)
        t = rng.randint(0, 4)
        for _ in range(rng.randint(0 if a else 1, 5)):
            s = t + rng.randint(-2, 6)
            e = s + rng.randint(1, 9)
            c.add(name, Segment(float(s), float(e)), rng.choice(LABELS[:rng.randint(1, 4)]))
            t = e
    return c


def record(pa, rng, count, rep):
    recs, metas = [], []
    with RngProbe() as probe:
        while len(recs) < count:
            sampler = pa.StatisticalContinuumSampler()
            custom = rng.random() < 0.4
            meta = {"custom": custom}
            if custom:
                gta = sorted(rng.sample(["p", "q", "r", "s", "t"], rng.randint(2, 5)))
                cats = rng.sample(["B", "D", "A", "C"], rng.randint(1, 4))       # NOT alphabetical: the weights belong to this order
                given = dict(count=[rng.choice([0.0, 1.5, 3.0]), rng.choice([0.0, 1.0, 2.5])],
                             gap=[rng.choice([0.0, 2.0, -1.0]), rng.choice([0.5, 3.0])],
                             dur=[rng.choice([0.0, 4.0, 1.0]), rng.choice([0.5, 2.0])])
                if rng.random() < 0.15:      # a duration law with real mass below the segment precision: the redraw loop matters
                    given["dur"] = [0.0, rng.choice([1e-6, 2e-6, 5e-7])]
                w = None
                if rng.random() < 0.6:
                    raw = [rng.randint(1, 5) for _ in cats]
                    w = [x / sum(raw) for x in raw]
                sampler.init_sampling_custom(gta, given["count"][0], given["count"][1], given["gap"][0], given["gap"][1],
                                             given["dur"][0], given["dur"][1], cats, w)
                ref = None
                meta.update(given=given, weights=w, annotators=gta, categories=cats)
            else:
                ref = grid_reference(pa, rng)
                anns = list(ref.annotators)
                gta = anns
                if rng.random() < 0.5 and len(anns) > 2:
                    gta = sorted(rng.sample(anns, rng.randint(2, len(anns))))
                sampler.init_sampling(ref, gta if gta != anns else None)
                cats = list(ref.categories)
                given, w = None, None
                meta.update(reference={a: [[u.segment.start, u.segment.end, u.annotation] for u in ref[a]] for a in anns},
                            ground_truth=gta)
            np.random.seed(rng.randint(0, 2 ** 31 - 1))
            for round_ in range(rng.randint(1, 3)):
                if round_ > 0 and not custom and rng.random() < 0.5:
                    # the same sampler re-initialised on the same (now modified) reference object: statistics must be re-measured
                    from pyannote.core import Segment
                    for _ in range(rng.randint(1, 6)):
                        a = rng.choice(anns)
                        s0 = float(rng.randint(0, 60))
                        ref.add(a, Segment(s0, s0 + float(rng.randint(1, 15))), rng.choice(LABELS))
                    cats = list(ref.categories)
                    sampler.init_sampling(ref, gta if gta != anns else None)
                    meta = dict(meta, reinitialised=True,
                                reference={a: [[u.segment.start, u.segment.end, u.annotation] for u in ref[a]] for a in anns})
                probe.log = []
                try:
                    smp = sampler.sample_from_continuum
                except Exception as ex:
                    probe.log = None
                    rep.violation("stat.raises", dict(meta, exception=repr(ex)))
                    break
                draws = probe.log
                probe.log = None
                catrank = {c: i + 1 for i, c in enumerate(cats)}
                dr = []
                for d in draws:
                    if d[0] == "normal":
                        dr.append({"k": "normal", "mu": fx(d[1]), "sigma": fx(d[2]), "var": fx(d[2] * d[2]), "x": fx(d[3]),
                                   "alist": [], "xt": int(d[3]) * K,      # integer part exactly (the unit count is int(x): rounding 1.9999 to 2.000 would lie)
                                   "xn": int(min(abs(d[3]) * 1e9, 2e9)), "r": 0, "p": []})      # floor: "< precision" stays exact
                    else:
                        dr.append({"k": "choice", "mu": 0, "sigma": 0, "var": 0, "x": 0, "xt": 0, "xn": 0, "r": catrank.get(d[3], 0),
                                   "alist": [catrank.get(x, 0) for x in d[1]],        # the population the choice is made over, as ranks
                                   "p": [] if d[2] is None else [fx(x, 10000) for x in d[2]]})
                sanns = [gta.index(a) + 1 if a in gta else 0 for a in smp.annotators]
                sample = [[gta.index(a) + 1 if a in gta else 0, fx(u.segment.start), fx(u.segment.end), catrank.get(u.annotation, 0),
                           int(min((u.segment.end - u.segment.start) * 1e9 + 1e-3, 2e9))] for a, u in smp]
                rec = {"nann": len(gta), "cats": list(range(1, len(cats) + 1)), "custom": 1 if custom else 0, "judgeparams": 1,
                       "draws": dr, "sample": sample, "sanns": sanns,
                       "given": {"count": [0, 0], "gap": [0, 0], "dur": [0, 0], "w": []},
                       "ref": {"nann": 0, "units": []}}
                if custom:
                    rec["given"] = {"count": [fx(v) for v in given["count"]], "gap": [fx(v) for v in given["gap"]],
                                    "dur": [fx(v) for v in given["dur"]], "w": [] if w is None else [fx(x, 10000) for x in w]}
                else:
                    anns = list(ref.annotators)
                    rec["ref"] = {"nann": len(anns),
                                  "units": [[anns.index(a) + 1, int(u.segment.start), int(u.segment.end), catrank[u.annotation]] for a, u in ref]}
                recs.append(rec)
                metas.append(dict(meta, draws=draws[:12], all_draws=[list(x) for x in draws][:400], sample={a: [[u.segment.start, u.segment.end, u.annotation] for u in smp[a]] for a in smp.annotators}))
                rep.case(key=json.dumps([rec["draws"], rec["nann"]]))
    return recs, metas


def judge(recs, nann):
    path = scratch() / f"stat-{random.getrandbits(32):08x}.json"
    path.write_text(json.dumps({"recs": recs}))
    res = tlc.run("TraceStatSampler", TRACE_CFG.format(nann=nann), label=f"TraceStatSampler nann={nann}",
                  env={"TRACE_FILE": str(path)}, workers=8, timeout=1200, coverage=False)
    path.unlink(missing_ok=True)
    if res.errors or res.violated:
        raise MachineryError(f"TraceStatSampler did not run cleanly: {res.errors} {res.violated}\n{res.out[-2500:]}")
    done, verdicts = set(), {}
    for p in res.printed:
        if "done" in p:
            done.add(p["done"] - 1)
        elif "verdict" in p:
            verdicts.setdefault(p["tid"] - 1, set()).add((p["verdict"], p["l"]))
    if done != set(range(len(recs))):
        raise MachineryError(f"TraceStatSampler judged {len(done)} of {len(recs)} records\n{res.out[-1500:]}")
    return res, verdicts


def run(tier, rep):
    pa = import_repo()
    rng = random.Random(seed() * 1000003 + 15)
    quick = tier == "quick"
    rep.rule = ("samples of the real sampler (custom parameter sets incl. zero means/deviations and no weights; integer-grid labelled "
                "references with ground-truth subsets); distinct = (draw sequence, annotators)")
    rep.assumptions += ["numpy.random.normal / choice follow the law they are asked for (only their arguments and results are observed)",
                        "the gap estimator is not fixed by the property: the code's variant and 3 neighbours are accepted"]
    l1(rep, tier)
    recs, metas = record(pa, rng, 500 if quick else 12000, rep)
    groups = {}
    for i, r in enumerate(recs):
        groups.setdefault(r["nann"], []).append(i)
    for nann, idxs in sorted(groups.items()):
        for j in range(0, len(idxs), 2500):
            part = idxs[j:j + 2500]
            res, verdicts = judge([recs[i] for i in part], nann)
            rep.add_tlc(res)
            for k, names in verdicts.items():
                ns = sorted({n for n, _ in names})
                rep.violation("stat." + "+".join(ns), {"clauses": sorted(names), "meta": metas[part[k]],
                                                       "record": {x: y for x, y in recs[part[k]].items() if x != "draws"},
                                                       "draws": recs[part[k]]["draws"][:400], "raw_draws": metas[part[k]].get("all_draws")})
    rep.traces += len(recs)
    rep.sample({"record_head": {k: (v[:6] if isinstance(v, list) else v) for k, v in recs[0].items()}})
    rep.extra["records_custom_vs_reference"] = [sum(r["custom"] for r in recs), sum(1 - r["custom"] for r in recs)]
    rep.extra["draws_total"] = sum(len(r["draws"]) for r in recs)


def replay(path, rep):
    d = json.loads(open(path).read())
    print(json.dumps(d["detail"], indent=1)[:6000])
