"""C09 - disorder and gamma are invariant under renaming, translation and scaling; linear in delta_empty.

L1  TLC: the abstract alignment problem (sizes, pairwise table) is what the optimum depends on - MC_Align checks
    PermInvariant (annotators reversed) and DeltaEmptyLinear (everything doubled) on every instance of its universes;
    MC_Dissim checks that the positional formula is shift / scale invariant and every formula linear in delta_empty.
L3  code -> spec: large random continua (2x60, 3x15, 5x5 - far beyond any exact oracle) are aligned before and after a
    transformation with exactly representable parameters; TraceInvariance.tla judges the pairs.
"""
import json
import random

import numpy as np

from . import align, dissim, tlc
from .common import MachineryError, import_repo, scratch, seed

FX = 1000000


def fxv(x):
    return int(round(float(x) * FX))


def big_continuum(pa, rng, shape, labels, unlabelled=0.0, crowded=False):
    from pyannote.core import Segment
    n_ann, per = shape
    c = pa.Continuum()
    for a in range(n_ann):
        name = f"ann_{a}"
        t = 0
        for _ in range(per):
            t += rng.randint(0, 1 if crowded else 6)
            dur = rng.randint(3 if crowded else 1, 8)
            c.add(name, Segment(float(t), float(t + dur)), None if rng.random() < unlabelled else rng.choice(labels))
            t += dur - rng.randint(0, 2)
    return c


def transform(pa, c, *, ann_map=None, shift=0.0, scale=1.0, cat_map=None):
    from pyannote.core import Segment
    out = pa.Continuum()
    for a in c.annotators:
        out.add_annotator(ann_map[a] if ann_map else a)
    for a, u in c:
        lab = u.annotation
        if cat_map and lab is not None:
            lab = cat_map[lab]
        out.add(ann_map[a] if ann_map else a, Segment(u.segment.start * scale + shift, u.segment.end * scale + shift), lab)
    return out


_DISSIMS = {}


def make_dissim(pa, rng, kind, labels, de, alpha, beta, cat_map=None):
    """Deterministic in its arguments: equal arguments give the SAME object (each new dissimilarity object costs a JIT
    compilation and memory numba never returns)."""
    labs = [cat_map[x] for x in labels] if cat_map else list(labels)
    key = (kind, de, alpha, beta, tuple(labs))
    if key not in _DISSIMS:
        _DISSIMS[key] = _make_dissim(pa, kind, labs, de, alpha, beta)
    return _DISSIMS[key]


def _make_dissim(pa, kind, labs, de, alpha, beta):
    from sortedcontainers import SortedSet
    if kind == "pos":
        return pa.PositionalSporadicDissimilarity(delta_empty=de)
    if kind == "comb_abs":
        return pa.CombinedCategoricalDissimilarity(alpha=alpha, beta=beta, delta_empty=de)
    if kind == "comb_abs_explicit":      # every component built with the same delta_empty
        return pa.CombinedCategoricalDissimilarity(alpha=alpha, beta=beta, delta_empty=de,
                                                   pos_dissim=pa.PositionalSporadicDissimilarity(delta_empty=de),
                                                   cat_dissim=pa.AbsoluteCategoricalDissimilarity(delta_empty=de))
    if kind == "comb_ord_natural":
        # the natural constructor path: the component is built with its default delta_empty and the combined
        # dissimilarity imposes its own on it
        return pa.CombinedCategoricalDissimilarity(alpha=alpha, beta=beta, delta_empty=de,
                                                   cat_dissim=pa.OrdinalCategoricalDissimilarity(labs, p=[float(i * i) for i in range(len(labs))]))
    if kind == "comb_ord":
        # positions attached to the labels (order-preserving renaming keeps them attached)
        return pa.CombinedCategoricalDissimilarity(alpha=alpha, beta=beta, delta_empty=de,
                                                   cat_dissim=pa.OrdinalCategoricalDissimilarity(labs, p=[float(i * i) for i in range(len(labs))], delta_empty=de))
    if kind == "comb_pre":
        k = len(labs)
        r = random.Random(k * 7 + 1)
        m = np.zeros((k, k), dtype=np.float32)
        for i in range(k):
            for j in range(i):
                m[i, j] = m[j, i] = r.choice([0.25, 0.5, 1.0])
        return pa.CombinedCategoricalDissimilarity(alpha=alpha, beta=beta, delta_empty=de,
                                                   cat_dissim=pa.PrecomputedCategoricalDissimilarity(SortedSet(labs), m, delta_empty=de))
    raise ValueError(kind)


def build(pa, rng, count, rep):
    recs, metas = [], []
    labels = ["Adj", "Noun", "Prep", "Verb"]
    shapes = [(2, 60), (3, 15), (5, 5), (2, 25), (4, 8), (5, 5), (4, 6)]
    failures = 0
    kinds = ["pos", "comb_abs", "comb_ord", "comb_pre", "comb_abs_explicit", "comb_ord_natural", "comb_abs_mixed"]
    tks = ["delta_empty", "rename", "permute", "shift", "scale", "catrename_order", "catrename_any", "delta_empty"]
    it = 0
    while len(recs) < count:
        shape = rng.choice(shapes)
        kind = kinds[it % len(kinds)]          # systematic: every (dissimilarity, transformation) combination
        crowded = shape[0] >= 3 and it % 2 == 0        # several annotators, overlapping heavily: branch-and-bound really needed
        c = big_continuum(pa, rng, shape, labels, unlabelled=0.3 if kind == "comb_abs_mixed" else 0.0, crowded=crowded)
        if it % 6 == 5 and kind != "comb_abs_mixed":
            # crowded: long units over the same stretch of time, thousands of candidates with small, close costs
            from pyannote.core import Segment
            c = pa.Continuum()
            k = rng.choice([30, 45])
            for a in ("ann_0", "ann_1"):
                for _ in range(k):
                    s0 = float(rng.randint(0, 40))
                    c.add(a, Segment(s0, s0 + float(rng.randint(30, 60))), rng.choice(labels))
            shape = (2, k)
        if kind == "comb_abs_mixed":           # labelled and unlabelled units mixed, default combined dissimilarity
            kind = "comb_abs"
            mixed = True
        else:
            mixed = False
        de = rng.choice([1.0, 0.5, 2.0])
        alpha, beta = rng.choice([1, 3, 0.5]), rng.choice([1, 2, 0.5])
        d = make_dissim(pa, rng, kind, labels, de, alpha, beta)
        try:
            base = c.get_best_alignment(d).disorder
        except Exception as ex:
            rep.violation("invariance.raises", {"exception": repr(ex), "shape": shape, "dissim": kind, "delta_empty": de})
            continue
        tk = tks[(it // len(kinds)) % len(tks)]
        if shape[0] >= 4 and not mixed:      # many annotators: mostly renamings / permutations (the column order of the ILP changes)
            tk = rng.choice(["permute", "rename", "permute", tk])
        if mixed:        # unlabelled units next to labelled ones: mostly under arbitrary renamings (which category sorts first changes)
            tk = rng.choice(["catrename_any", "catrename_any", "catrename_any", "delta_empty", "rename"])
        it += 1
        meta = {"shape": shape, "dissim": kind, "delta_empty": de, "alpha": alpha, "beta": beta, "transform": tk, "mixed_unlabelled": mixed}
        rec = {"kind": tk, "c": [1, 1], "base": fxv(base), "other": 0, "hasgamma": 0, "gbase": 0, "gother": 0}
        anns = list(c.annotators)
        try:
          other = _transformed(pa, rng, c, d, kind, labels, de, alpha, beta, tk, rec, meta, shape, anns, mixed)
        except Exception as ex:
            rep.violation("invariance.raises", {"exception": repr(ex), "meta": meta})
            failures += 1
            if failures > count:
                break
            continue
        if other is None:
            continue
        rec["other"] = fxv(other)
        recs.append(rec)
        metas.append(meta)
        rep.case(key=json.dumps([meta, rec["base"]]))
    return recs, metas


def _transformed(pa, rng, c, d, kind, labels, de, alpha, beta, tk, rec, meta, shape, anns, mixed):
    """Disorder of the transformed continuum (rec / meta are updated in place); None = combination skipped."""
    if True:
        if tk == "rename":
            m = {a: f"zz_{i}_{a}" for i, a in enumerate(anns)}
            other = transform(pa, c, ann_map=m).get_best_alignment(d).disorder
        elif tk == "permute":
            names = [f"p{(len(anns) - i):02d}" for i in range(len(anns))]      # reverses the alphabetical order
            m = dict(zip(anns, names))
            other = transform(pa, c, ann_map=m).get_best_alignment(d).disorder
        elif tk == "shift":
            sh = float(rng.choice([1, 17, 4096, 65536, 1048576 - 1]))
            meta["shift"] = sh
            other = transform(pa, c, shift=sh).get_best_alignment(d).disorder
        elif tk == "scale":
            sc = float(rng.choice([2, 4, 3, 0.5, 8, 5]))
            meta["scale"] = sc
            other = transform(pa, c, scale=sc).get_best_alignment(d).disorder
        elif tk == "catrename_order":
            cm = {x: f"k{i}_{x.lower()}" for i, x in enumerate(sorted(labels))}       # order-preserving
            d2 = make_dissim(pa, rng, kind, labels, de, alpha, beta, cat_map=cm)
            other = transform(pa, c, cat_map=cm).get_best_alignment(d2).disorder
        elif tk == "catrename_any":
            if kind not in ("pos", "comb_abs", "comb_abs_explicit"):
                rec["kind"] = meta["transform"] = "rename"
                m = {a: f"zz_{i}_{a}" for i, a in enumerate(anns)}
                return transform(pa, c, ann_map=m).get_best_alignment(d).disorder
            perm = list(labels)
            rng.shuffle(perm)
            cm = {x: f"q_{perm[i]}" for i, x in enumerate(sorted(labels))}           # arbitrary bijection
            if labels and rng.random() < 0.5:
                cm[rng.choice(sorted(labels))] = ""          # the empty string is a legal category name (not "no category")
            other = transform(pa, c, cat_map=cm).get_best_alignment(d).disorder
        else:
            factor = rng.choice([2, 4, 0.5, 3])
            f = (int(factor), 1) if factor >= 1 else (1, 2)
            d2 = make_dissim(pa, rng, kind, labels, de * factor, alpha, beta)
            other = c.get_best_alignment(d2).disorder
            rec["c"] = list(f)
            meta["factor"] = factor
            if shape[0] * shape[1] <= 50:
                s = rng.randint(0, 2 ** 31 - 1)
                # the statistical sampler is defined on labelled references only: shuffle sampler when units are unlabelled
                mk = (lambda: pa.ShuffleContinuumSampler()) if mixed else (lambda: None)
                np.random.seed(s)
                g1 = c.compute_gamma(d, n_samples=4, sampler=mk())
                np.random.seed(s)
                g2 = c.compute_gamma(d2, n_samples=4, sampler=mk())
                rec.update(hasgamma=1, gbase=fxv(g1.gamma), gother=fxv(g2.gamma))
        return other


def permute_instance(inst, perm):
    """The same abstract alignment problem with annotator k of the new one = annotator perm[k] of the old one."""
    n = inst["n"]
    sizes = [inst["sizes"][perm[a]] for a in range(n)]
    D = [[[] for _ in range(n)] for _ in range(n)]
    for a in range(n):
        for b in range(a + 1, n):
            pa_, pb_ = perm[a], perm[b]
            if pa_ < pb_:
                D[a][b] = [[inst["D"][pa_][pb_][i][j] for j in range(sizes[b])] for i in range(sizes[a])]
            else:
                D[a][b] = [[inst["D"][pb_][pa_][j][i] for j in range(sizes[b])] for i in range(sizes[a])]
    return {"n": n, "sizes": sizes, "de": inst["de"], "D": D}


def instance_permutations(rep, pa, rng, insts, limit):
    """L2 for 'annotators renamed or permuted': every TLC-enumerated instance (incl. the 'one costly pair' universes, where the
    optimum hinges on a tuple with one very dissimilar pair) realised exactly under each ordering of its annotators."""
    import itertools
    from . import alignrec as ar
    recs, metas = [], []
    if len(insts) > limit:
        insts = rng.sample(insts, limit)
    jobs = []          # (instance entry, permutation or None)
    for p in insts:
        inst = p["inst"]
        if sum(1 for k in inst["sizes"] if k > 0) < 2:
            continue
        perms = list(itertools.permutations(range(inst["n"])))[1:]
        if len(perms) > 5:
            perms = rng.sample(perms, 5)
        jobs.append((p, None))
        jobs += [(p, perm) for perm in perms]
    # few dissimilarity objects for many instances (see alignrec.realise_batch)
    realised = ar.realise_batch(pa, [p["inst"] if perm is None else permute_instance(p["inst"], perm) for p, perm in jobs], align.G_SCALE)
    base = None
    for (p, perm), (c1, d1) in zip(jobs, realised):
        inst = p["inst"]
        if perm is None:
            try:
                base = c1.get_best_alignment(d1).disorder
            except Exception as ex:
                rep.violation("invariance.raises", {"exception": repr(ex), "instance": inst})
                base = None
            continue
        if base is None:
            continue
        meta = {"layer": "L2", "instance": inst, "annotator_order": list(perm), "spec_optimum_cost": p["result"]["pruned"], "transform": "permute"}
        try:
            other = c1.get_best_alignment(d1).disorder
        except Exception as ex:
            rep.violation("invariance.raises", {"exception": repr(ex), "meta": meta})
            continue
        recs.append({"kind": "permute", "c": [1, 1], "base": fxv(base), "other": fxv(other), "hasgamma": 0, "gbase": 0, "gother": 0})
        metas.append(meta)
        rep.case(key=json.dumps([inst["sizes"], inst["D"], list(perm)]))
    return recs, metas


def judge(recs):
    path = scratch() / f"inv-{random.getrandbits(32):08x}.json"
    path.write_text(json.dumps({"recs": recs}))
    res = tlc.run("TraceInvariance", "SPECIFICATION Spec\nCONSTRAINT Verdicts\n", label="TraceInvariance",
                  env={"TRACE_FILE": str(path)}, workers=4, timeout=600, coverage=False)
    path.unlink(missing_ok=True)
    if res.errors or res.violated:
        raise MachineryError(f"TraceInvariance did not run cleanly: {res.errors} {res.violated}\n{res.out[-2000:]}")
    done, verdicts = set(), {}
    for p in res.printed:
        if "done" in p:
            done.add(p["done"] - 1)
        elif "verdict" in p:
            verdicts.setdefault(p["tid"] - 1, set()).add(p["verdict"])
    if done != set(range(len(recs))):
        raise MachineryError("TraceInvariance did not judge every record")
    return res, verdicts


def run(tier, rep):
    pa = import_repo()
    rng = random.Random(seed() * 1000003 + 9)
    quick = tier == "quick"
    rep.rule = "pairs (continuum, transformed continuum) x dissimilarity; distinct = (shape, dissimilarity, transformation, base disorder)"
    rep.assumptions += ["transformation parameters are exactly representable (integer shifts < 2^20, factors 2^k and small integers) so float32 inputs stay exact",
                        "Levenshtein categories are not renamed (the dissimilarity depends on the strings by definition)"]
    dissim.l1(rep, "quick")
    align.l1_align(rep, ["2x2", "3x1"] if quick else ["2x2", "2x2de2", "3x1", "3x2", "4x1"], emit=False, inv=True)
    insts = align.l1_align(rep, ["3x1hi", "4x1hi"] if quick else ["3x1", "3x1hi", "4x1hi3", "3x2hi", "4x1"], emit=True, inv=True)
    recs, metas = instance_permutations(rep, pa, rng, insts, 60 if quick else 1500)
    r2, m2 = build(pa, rng, 70 if quick else 1200, rep)
    recs, metas = recs + r2, metas + m2
    res, verdicts = judge(recs)
    rep.add_tlc(res)
    rep.traces += len(recs)
    for k, names in verdicts.items():
        rep.violation("invariance." + "+".join(sorted(names)) + "." + recs[k]["kind"], {"clauses": sorted(names), "meta": metas[k], "record": recs[k]})
    rep.sample({"meta": metas[0], "record": recs[0]})
    rep.extra["by_transformation"] = {k: sum(1 for r in recs if r["kind"] == k) for k in sorted({r["kind"] for r in recs})}


def replay(path, rep):
    d = json.loads(open(path).read())
    print(json.dumps(d["detail"], indent=1)[:4000])
